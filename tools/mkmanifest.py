#!/usr/bin/env python3
"""Regenerates /verif/MANIFEST.json from the table below (single source of truth)."""
import json, os, subprocess
ROOT = os.path.dirname(os.path.dirname(os.path.abspath(__file__)))

# id -> (implemented, technique, level text, level note, design_ref)
P = {
 "C01": (False, "stateful PBT (proptest op histories) vs reference page-table model + independent hardware-style walker, 3 mapper backends incl. software MMU", "", "", "3/C01"),
 "C02": (False, "state-relative PBT with allocator fault schedules; documented-outcome table; before/after invariance; cross-backend differential", "", "", "3/C02"),
 "C03": (True, "proptest: edge-biased inputs + generated programs of safe operations vs independent validity predicate and metamorphic truncation laws; both build profiles",
         "Exploration: ~1.3M generated constructor inputs/program steps per quick run (both overflow-checking and release builds) judged by a bit-level predicate written from the architecture definition, not from the crate. Shows the property on everything generated; cannot show absence.",
         "Trusts proptest's generators/shrinker and the harness oracle (valid_v/valid_p, 10 lines). Inputs: all u64 (edge-biased), programs up to 24 steps over 46 operation kinds.", "3/C03"),
 "C04": (True, "proptest + exhaustive u16 enumeration vs independent bit-field codec (both directions)",
         'Exploration plus exhaustive sub-spaces: ~300k generated canonical addresses / index tuples per quick run compared with an independent shift-and-mask codec in both directions; all 65536 u16 inputs of the index/offset constructors and the four levels are enumerated completely every run.',
         'Trusts the 5-line bit-field oracle and proptest. Index tuples are edge-biased over 0..512^4, not enumerated.', "3/C04"),
 "C05": (True, "proptest vs u128 position model of the contiguous canonical space; mutual-inverse laws; range iteration",
         'Exploration: ~480k generated (start,count,end) triples for addresses, pages of three sizes and table indices per quick run and profile, judged by a u128 position model of the contiguous canonical space, the three mutual-inverse laws and by iterating real a..b / a..=b ranges across the gap.',
         'Trusts the position model (pos = a & (2^48-1)) and proptest. usize = u64 on this target.', "3/C05"),
 "C06": (True, "proptest vs u128 arithmetic oracle with panic-iff table",
         'Exploration: 600k generated (address, alignment) pairs per quick run and profile over all 64 power-of-two alignments plus non-powers, judged by u128 arithmetic with an exact panic-iff table; containment for the three sizes.',
         'Trusts the u128 oracle. VirtAddr value claims are made for alignments <= 2^47 as the property states.', "3/C06"),
 "C07": (True, "proptest vs i128 exact-or-panic oracle in overflow-checking and release builds; range iteration vs count model",
         'Exploration in BOTH build profiles (overflow checks on and off): ~200k operator cases x 9 operators and 6000 ranges (up to 4096 items, biased to the first/last items of each half and to the last physical frame) per quick run and profile, judged by an i128 exact-or-panic oracle and a list model of the range.',
         'Trusts the i128 oracle; a panic is never a violation for operators (the statement is exact-or-panic). Range bounds are generated inside one half / below 2^52 as the quantifier states.', "3/C07"),
 "C08": (True, "proptest setter programs vs raw-bytes model (transmute), table access-path differential",
         'Exploration plus an exhaustive 512-slot sweep: 60k setter programs and 15k table programs per quick run judged against a raw-u64 / raw-4096-byte model obtained by transmute, through all write paths x read paths.',
         'Trusts transmute of the repr(transparent)/repr(C) types as the observation of the hardware layout.', "3/C08"),
 "C09": (False, "stateful PBT over junk-filled simulated memory: byte diff vs predicted writes, access logs, allocation accounting", "", "", "3/C09"),
 "C10": (False, "stateful PBT: MUST/MAY freed-set model, inspection at dealloc time, idempotence", "", "", "3/C10"),
 "C11": (False, "PBT with trapped privileged instructions (user-mode trap-and-emulate): operand decode vs manuals, interval cover", "", "", "3/C11"),
 "C12": (False, "exhaustive vector/range enumeration + proptest setter programs vs independent gate decoder; trapped lidt", "", "", "3/C12"),
 "C13": (False, "PBT with simulated interrupt delivery into the real stubs; observed handler arguments and resume state", "", "", "3/C13"),
 "C14": (False, "stateful PBT (append histories x const capacities) vs Vec model; trapped lgdt", "", "", "3/C14"),
 "C15": (False, "proptest vs independent system-descriptor decoder; layout offsets", "", "", "3/C15"),
 "C16": (False, "PBT with trapped privileged instructions vs emulated register-file model; exact trap log", "", "", "3/C16"),
 "C17": (False, "generated nested-closure programs with emulated IF (trapped cli/sti/hlt + RFLAGS overlay hook)", "", "", "3/C17"),
 "C18": (False, "PBT with trapped in/out: opcode/DX/AL-AX-EAX vs device model", "", "", "3/C18"),
 "C19": (False, "exhaustive enumeration of constants vs independent manual-derived table; exhaustive/generated codec round trips", "", "", "3/C19"),
 "C20": (False, "PBT on software MMU: constructor truth table; index-repetition formula for all 512 indices via hook", "", "", "3/C20"),
}

def main():
    hooks = subprocess.run(["git", "-C", "/repo", "log", "--format=%H %s"], capture_output=True, text=True).stdout.splitlines()
    hook_commits = [l.split()[0] for l in hooks if " verif hook " in " " + l]
    checks = []; na = []
    for pid, (impl, tech, text, note, ref) in sorted(P.items()):
        if not impl:
            na.append({"property_id": pid, "reason": "check not built yet in this tree (planned: %s); see DESIGN.md section %s" % (tech, ref)})
            continue
        checks.append({
            "property_id": pid,
            "quick_cmd": "./check %s --tier quick" % pid,
            "thorough_cmd": "./check %s --tier thorough" % pid,
            "evidence_file": "/verif/evidence/%s.json" % pid,
            "replay_cmd_template": "./check %s --replay {path}" % pid,
            "engine": "vharness",
            "level_claimed": {"category": "exploration", "text": text, "design_ref": "DESIGN.md " + ref},
            "level_note": note,
            "technique": tech,
        })
    m = {
        "version": 1,
        "setup_cmd": "./setup.sh",
        "hooks": {
            "guard": "cargo feature verif_hooks (off by default)",
            "enable": "harness/Cargo.toml depends on x86_64 = { path = \"/repo\", features = [\"verif_hooks\"] }",
            "baseline_off_cmd": "cd /repo && cargo test --workspace --no-fail-fast --offline",
            "source_commits": hook_commits,
            "add_only": True,
        },
        "engines": [
            {"name": "vharness", "path": "/verif/harness", "serves_properties": [c["property_id"] for c in checks],
             "kind_free_text": "Rust crate: proptest 1.11 driven from a binary (fixed seed from VERIF_SEED, shrinking, JSON replay files), exhaustive enumerators for finite sub-spaces, user-mode trap-and-emulate of privileged instructions, software MMU, simulated interrupt delivery; python driver ./check fans out worker processes and merges evidence"},
        ],
        "checks": checks,
        "not_applicable": na,
        "notes": "All checks are exploration-level property-based tests (see DESIGN.md). Known findings: KNOWN_FINDINGS.txt. Seeded breakages and which check catches them: seeded/ and DESIGN.md section 7.",
    }
    with open(os.path.join(ROOT, "MANIFEST.json"), "w") as f:
        json.dump(m, f, indent=1)
    print("wrote MANIFEST.json: %d checks, %d not_applicable" % (len(checks), len(na)))

if __name__ == "__main__":
    main()
