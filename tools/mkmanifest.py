#!/usr/bin/env python3
"""Regenerates /verif/MANIFEST.json from the table below (single source of truth)."""
import json, os, subprocess
ROOT = os.path.dirname(os.path.dirname(os.path.abspath(__file__)))

# id -> (implemented, technique, level text, level note, design_ref)
P = {
 "C01": (True, "stateful PBT (proptest op histories) vs reference page-table model + independent hardware-style walker, 3 mapper backends incl. software MMU",
         "Exploration by stateful property-based testing: 16k generated call histories (up to 32 calls; thorough: 800k histories up to 96 calls) each run on all three mapper implementations over simulated physical memory; after every call the reference model, an independent hardware-style walk of the raw table bytes and the crate's translate/translate_addr/translate_page must agree on a probe set, and every table frame must equal the model's rendering byte for byte.",
         'Trusts the reference model/hardware walker (written from the architecture manuals), the software MMU and the trap decoder. Recursive indices limited to slots a Linux process can host.', "3/C01"),
 "C02": (True, "state-relative PBT with allocator fault schedules; documented-outcome table; before/after invariance; cross-backend differential",
         'Exploration with fault enumeration inside it: 16k histories weighted towards error states, every allocating call carrying an allocator failure schedule (none/1st/2nd/3rd/all); oracle = documented outcome per model state, byte-exact before/after invariance of all simulated memory on Err (modulo the allowed parent-flag widening), allocator request accounting and identical results across the three implementations.',
         "Same trusted base as C01. 'Any Err, never Ok' is required only where the documentation defines no outcome (entry holds a lower-level table).", "3/C02"),
 "C03": (True, "proptest: edge-biased inputs + generated programs of safe operations vs independent validity predicate and metamorphic truncation laws; both build profiles",
         "Exploration: ~1.3M generated constructor inputs/program steps per quick run (both overflow-checking and release builds) judged by a bit-level predicate written from the architecture definition, not from the crate. Shows the property on everything generated; cannot show absence.",
         "Trusts proptest's generators/shrinker and the harness oracle (valid_v/valid_p, 10 lines). Inputs: all u64 (edge-biased), programs up to 24 steps over 48 operation kinds (incl. page/frame range iteration with the public start/end fields).", "3/C03"),
 "C04": (True, "proptest + exhaustive u16 enumeration vs independent bit-field codec (both directions)",
         'Exploration plus exhaustive sub-spaces, in both build profiles (debug assertions on and off): ~300k generated canonical addresses / index tuples per quick run and profile compared with an independent shift-and-mask codec in both directions; all 65536 u16 inputs of the index/offset constructors and the four levels are enumerated completely every run.',
         'Trusts the 5-line bit-field oracle and proptest. Index tuples are edge-biased over 0..512^4, not enumerated.', "3/C04"),
 "C05": (True, "proptest vs u128 position model of the contiguous canonical space; mutual-inverse laws; range iteration",
         'Exploration: ~480k generated (start,count,end) triples for addresses, pages of three sizes and table indices per quick run and profile, judged by a u128 position model of the contiguous canonical space, the three mutual-inverse laws and by iterating real a..b / a..=b ranges across the gap.',
         'Trusts the position model (pos = a & (2^48-1)) and proptest. usize = u64 on this target.', "3/C05"),
 "C06": (True, "proptest vs u128 arithmetic oracle with panic-iff table",
         'Exploration: 600k generated (address, alignment) pairs per quick run and profile over all 64 power-of-two alignments plus non-powers, judged by u128 arithmetic with an exact panic-iff table; containment for the three sizes.',
         'Trusts the u128 oracle. VirtAddr value claims are made for alignments <= 2^47 as the property states.', "3/C06"),
 "C07": (True, "proptest vs i128 exact-or-panic oracle in overflow-checking and release builds; range iteration vs count model",
         'Exploration in BOTH build profiles (overflow checks on and off): ~200k operator cases x 9 operators and 6000 ranges (up to 4096 items, biased to the first/last items of each half and to the last physical frame) per quick run and profile, judged by an i128 exact-or-panic oracle and a list model of the range.',
         'Trusts the i128 oracle; a panic is never a violation for operators (the statement is exact-or-panic). Range bounds are generated inside one half / below 2^52 as the quantifier states.', "3/C07"),
 "C08": (True, "proptest setter programs vs raw-bytes model (transmute), table access-path differential",
         'Exploration plus an exhaustive 512-slot sweep: 60k setter programs and 15k table programs per quick run judged against a raw-u64 / raw-4096-byte model obtained by transmute, through all write paths x read paths.',
         'Trusts transmute of the repr(transparent)/repr(C) types as the observation of the hardware layout.', "3/C08"),
 "C09": (True, "stateful PBT over junk-filled simulated memory: byte diff vs predicted writes, access logs, allocation accounting",
         "Exploration: 16k histories over junk-pre-filled simulated memory with recycled and huge-aligned table frames; after every call every materialised physical frame must equal the model's expectation (so any stray write anywhere is seen), and the per-backend access logs (frame_to_pointer arguments, offset-window faults, software-MMU fault log) must stay inside the hierarchy's tables.",
         "Same trusted base as C01; 'completely zeroed before use' is decided after the call on junk-pre-filled frames and, on the recursive mapper, through the fault log.", "3/C09"),
 "C10": (True, "stateful PBT: MUST/MAY freed-set model, inspection at dealloc time, idempotence",
         'Exploration: 16k histories engineered to leave empty tables, followed by clean_up / clean_up_addr_range over single-page, empty, table-aligned, unaligned, gap-spanning and to-the-last-page ranges, each immediately repeated; the deallocator callback inspects memory at the moment of each release (empty, unlinked), the model forbids freeing anything that holds an entry or lies outside the range and forbids leaving an empty in-range table behind.',
         'Same trusted base as C01.', "3/C10"),
 "C11": (True, "PBT with trapped privileged instructions (user-mode trap-and-emulate): operand decode vs manuals, interval cover",
         'Exploration with the real privileged instructions executed and trapped: 40k flush / 40k flush_all / 40k flush_pcid cases and 12k broadcast-builder cases (~1M trapped invlpgb requests) per quick run; every operand is decoded per the Intel/AMD manuals and compared with what was asked; interval-cover oracle for range flushes. The token-names-the-changed-page half is checked over mapper histories in the C01 run.',
         "Trusts the harness's instruction decoder and the reading of the invlpgb operand format (ECX[15:0] = additional pages). invlpgb does not exist on this CPU: it traps as #UD and is decoded from the register file.", "3/C11"),
 "C12": (True, "exhaustive vector/range enumeration + proptest setter programs vs independent gate decoder; trapped lidt",
         'Exhaustive for the finite parts (all 256 vectors through every access path; all 65536 (start,end) pairs x 21 range/slice forms; lidt operand) plus exploration of 30k handler-address x setter-program cases judged by an independent 16-byte gate decoder.',
         'Trusts the gate decoder (SDM fig. 6-8) and the name->vector table typed in from the manuals.', "3/C12"),
 "C13": (True, "PBT with simulated interrupt delivery into the real stubs; observed handler arguments and resume state",
         'Exhaustive over all 65536 (lo,hi) installation ranges plus exploration of 120k simulated interrupt deliveries into the real x86-interrupt stubs (all 256 vectors, error codes, unaligned stack pointers, flag images incl. NT) and 20k iretq round trips.',
         "The hardware frame is built by harness assembly in ring 3: CS/SS are fixed to the process's selectors and privileged flag bits are excluded; diverging vectors 8/18 are left by a stack switch.", "3/C13"),
 "C14": (True, "stateful PBT (append histories x const capacities) vs Vec model; trapped lgdt",
         'Exploration: 40k append histories over the six monomorphised capacities (1,2,3,8,9,8192) and 20k raw-slice constructions, judged by a Vec model, the selector formula and the trapped lgdt operand.',
         'Capacities are the listed const parameters, not all usize.', "3/C14"),
 "C15": (True, "proptest vs independent system-descriptor decoder; layout offsets",
         'Exploration of 200k TSS addresses through an independent system-descriptor decoder, plus complete enumeration of the six presets and of both structure layouts.',
         'Trusts the decoder written from SDM fig. 8-4 and the layout offsets from SDM fig. 8-11.', "3/C15"),
 "C16": (True, "PBT with trapped privileged instructions vs emulated register-file model; exact trap log",
         "Exploration with every wrapper's real inline assembly executed and trapped: ~320k (prior content, argument, operation) cases per quick run over Cr0/2/3/4, Dr0-3/6/7, XCr0, Msr, Efer, Fs/Gs/KernelGs base, Star, LStar, SFMask, UCet, SCet, Pat, ApicBase, segment registers and bases, load_tss, mxcsr, rflags; the oracle is an emulated register-file model with register numbers/MSR indices/modelled-bit masks typed in from the manuals.",
         'Trusts the instruction decoder and the per-wrapper sound prior domains listed in the evidence assumptions; segment loads only with selectors that fault under Linux; XCR0/RFLAGS.IF via hooks H4/H2.', "3/C16"),
 "C17": (True, "generated nested-closure programs with emulated IF (trapped cli/sti/hlt + RFLAGS overlay hook)",
         'Exploration in both build profiles: 40k generated nested-closure programs per profile run through the real without_interrupts with cli/sti/hlt trapped and IF emulated (hook H2 makes the IF=0 branch reachable); both initial IF states of enable_and_hlt enumerated, adjacency of sti and hlt checked on the trapped instruction addresses; the memory effects of the closure are sampled by the trap handler at the trapped cli/sti and must lie inside the interrupt-free window.',
         "'No interrupt window' is decided as adjacency in the instruction stream; interrupts are not injected.", "3/C17"),
 "C18": (True, "PBT with trapped in/out: opcode/DX/AL-AX-EAX vs device model",
         'Exploration in both build profiles (120k accesses per profile over all widths, access kinds, edge-biased ports, values and device replies); the thorough tier enumerates all 65536 ports x 3 widths x 3 access kinds.',
         "Trusts the opcode map used by the decoder (EC/ED/EE/EF, 66 prefix); 'without touching memory' is decided by the instruction form (DX form, not ins/outs).", "3/C18"),
 "C19": (True, "exhaustive enumeration of constants vs independent manual-derived table; exhaustive/generated codec round trips",
         'Complete enumeration on every run of all named constants (14 bitflags types via iter_names, MSR numbers, vectors, sizes, PAT, resets) against an independently typed manual table, all u16/u8 codec inputs exhaustively, and 100k generated DR7 / selector-error-code cases.',
         'The manual table itself is the trusted base (typed from the SDM/APM); a crate constant without a table row is reported as a label in the evidence.', "3/C19"),
 "C20": (True, "PBT on software MMU: constructor truth table; index-repetition formula for all 512 indices via hook",
         'Exploration: 150k (recursive index, page) pairs over all 512 indices through hook H3 against the index-repetition formula; 20k constructor cases (recursive and near-recursive table addresses x CR3 contents x slot contents) against the documented truth table, each followed by a second construction after a root switch inside the same function, with the used index observed from software-MMU fault addresses; 8k histories (incl. clean-up calls) on the running recursive mapper checking every touched recursive page.',
         'Running recursive mapper limited to indices [1,31] and [65,160]; indices >= 256 only through the pure-function hook.', "3/C20"),
}

def main():
    hooks = subprocess.run(["git", "-C", "/repo", "log", "--format=%H %s"], capture_output=True, text=True).stdout.splitlines()
    hook_commits = [l.split()[0] for l in hooks if " verif hook " in " " + l]
    checks = []; na = []
    for pid, (impl, tech, text, note, ref) in sorted(P.items()):
        if not impl:
            na.append({"property_id": pid, "reason": "check not built yet in this tree (planned: %s); see DESIGN.md section %s" % (tech, ref)})
            continue
        checks.append({
            "property_id": pid,
            "quick_cmd": "./check %s --tier quick" % pid,
            "thorough_cmd": "./check %s --tier thorough" % pid,
            "evidence_file": "/verif/evidence/%s.json" % pid,
            "replay_cmd_template": "./check %s --replay {path}" % pid,
            "engine": "vharness",
            "level_claimed": {"category": "exploration", "text": text, "design_ref": "DESIGN.md " + ref},
            "level_note": note,
            "technique": tech,
        })
    m = {
        "version": 1,
        "setup_cmd": "./setup.sh",
        "hooks": {
            "guard": "cargo feature verif_hooks (off by default)",
            "enable": "harness/Cargo.toml depends on x86_64 = { path = \"/repo\", features = [\"verif_hooks\"] }",
            "baseline_off_cmd": "cd /repo && cargo test --workspace --no-fail-fast --offline",
            "source_commits": hook_commits,
            "add_only": True,
        },
        "engines": [
            {"name": "vharness", "path": "/verif/harness", "serves_properties": [c["property_id"] for c in checks],
             "kind_free_text": "Rust crate: proptest 1.11 driven from a binary (fixed seed from VERIF_SEED, shrinking, JSON replay files), exhaustive enumerators for finite sub-spaces, user-mode trap-and-emulate of privileged instructions, software MMU, simulated interrupt delivery; python driver ./check fans out worker processes and merges evidence"},
        ],
        "checks": checks,
        "not_applicable": na,
        "notes": "All checks are exploration-level property-based tests (see DESIGN.md). Known findings: KNOWN_FINDINGS.txt (currently none open; 13 fixed: lines, repaired by 10 fix: commits in /repo plus one follow-up). Seeded breakages and which check catches them: seeded/ and DESIGN.md section 7 (164 sub-agent changes, 129 mutants); property-preserving changes on which every check stays silent: benign/ and DESIGN.md 7.4.",
    }
    with open(os.path.join(ROOT, "MANIFEST.json"), "w") as f:
        json.dump(m, f, indent=1)
    print("wrote MANIFEST.json: %d checks, %d not_applicable" % (len(checks), len(na)))

if __name__ == "__main__":
    main()
