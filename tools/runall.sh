#!/bin/sh
# usage: tools/runall.sh [tier] ; runs every registered check once with the current VERIF_SEED and prints exit codes
cd "$(dirname "$0")/.."
tier=${1:-quick}
rc_all=0
for id in C01 C02 C03 C04 C05 C06 C07 C08 C09 C10 C11 C12 C13 C14 C15 C16 C17 C18 C19 C20; do
  out=$(./check $id --tier $tier 2>&1); rc=$?
  echo "$id exit=$rc $(echo "$out" | tail -1)"
  echo "$out" | grep -E "^VIOLATION|INCONCLUSIVE" | head -3
  [ $rc -ne 0 ] && rc_all=1
done
exit $rc_all
