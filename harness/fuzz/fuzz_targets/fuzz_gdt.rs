#![no_main]
use arbitrary::Unstructured;
use libfuzzer_sys::fuzz_target;
use vharness::fuzzglue as g;

fuzz_target!(|data: &[u8]| {
    let mut u = Unstructured::new(data);
    g::init();
    g::gdt_target(&mut u);
});
