#![no_main]
//! Secondary engine (coverage-guided): bytes -> the same op enums / case tuples as the proptest checks of
//! C03, C05, C06, C07, judged by the same oracles (the oracle is inside the target).
use arbitrary::Unstructured;
use libfuzzer_sys::fuzz_target;
use vharness::fuzzglue as g;

fuzz_target!(|data: &[u8]| {
    let mut u = Unstructured::new(data);
    g::init();
    g::addr_target(&mut u);
});
