//! Glue for the secondary, coverage-guided engine (cargo-fuzz / libFuzzer): decodes bytes with
//! `arbitrary::Unstructured` into the same case types as the proptest checks and judges them with the
//! same oracles. A failing case is written as an ordinary replay file and the target panics, so the
//! crashing input libFuzzer saves corresponds to a replay that `./check <ID> --replay` re-executes.
use crate::engine::{install_quiet_panic_hook, CaseResult, Obs};
use crate::gen::BOUNDARIES;
use crate::props::{c03, c05, c06, c07, c08, c14, mapper};
use arbitrary::Unstructured;
use serde::Serialize;
use std::sync::Once;

static INIT: Once = Once::new();
pub fn init() {
    INIT.call_once(|| {
        install_quiet_panic_hook();
    });
}

fn edge(u: &mut Unstructured) -> u64 {
    match u.arbitrary::<u8>().unwrap_or(0) % 8 {
        0 | 1 | 2 => u.arbitrary::<u64>().unwrap_or(0),
        3 | 4 | 5 => {
            let b = BOUNDARIES[u.arbitrary::<u8>().unwrap_or(0) as usize % BOUNDARIES.len()];
            b.wrapping_add(u.arbitrary::<i16>().unwrap_or(0) as i64 as u64)
        }
        6 => 1u64 << (u.arbitrary::<u8>().unwrap_or(0) % 64),
        _ => (u.arbitrary::<u16>().unwrap_or(0) as u64) * [1u64, 4096, 1 << 21, 1 << 30][u.arbitrary::<u8>().unwrap_or(0) as usize % 4],
    }
}
fn canon(u: &mut Unstructured) -> u64 {
    crate::gen::sign_extend48(edge(u))
}
fn physa(u: &mut Unstructured) -> u64 {
    edge(u) & ((1 << 52) - 1)
}

fn report<C: Serialize>(property: &str, sub: &str, case: &C, r: CaseResult) {
    if let Err(m) = r {
        let body = serde_json::json!({"property": property, "sub": sub, "profile": "", "seed": 0, "message": m, "case": case});
        let text = serde_json::to_string_pretty(&body).unwrap();
        let h = crate::engine::hash_of(&text);
        let dir = std::env::var("VERIF_REPLAY_DIR").unwrap_or_else(|_| "/verif/replays/new".to_string());
        let _ = std::fs::create_dir_all(&dir);
        let path = format!("{}/{}-{}-fuzz-{:08x}.json", dir, property, sub, h as u32);
        let _ = std::fs::write(&path, text);
        eprintln!("VIOLATION property={} replay={}\n  sub={} message={}", property, path, sub, m);
        std::process::abort();
    }
}

fn op03(u: &mut Unstructured) -> c03::Op {
    use c03::Op::*;
    let r = u.arbitrary::<u8>().unwrap_or(0);
    let s = u.arbitrary::<u8>().unwrap_or(0);
    let l = u.arbitrary::<u8>().unwrap_or(0);
    let x = edge(u);
    let i = |u: &mut Unstructured| u.arbitrary::<u16>().unwrap_or(0);
    match u.arbitrary::<u8>().unwrap_or(0) % 46 {
        0 => VNew(x), 1 => VTry(x), 2 => VTrunc(x), 3 => VZero, 4 => VFromPtr(crate::gen::sign_extend48(x)),
        5 => VAlignUp(r, l), 6 => VAlignDown(r, l), 7 => VAdd(r, x), 8 => VSub(r, x), 9 => VAddAssign(r, x),
        10 => VSubAssign(r, x), 11 => VFwd(r, x), 12 => VBwd(r, x), 13 => VFwdChecked(r, x), 14 => VBwdChecked(r, x),
        15 => PNew(x), 16 => PTry(x), 17 => PTrunc(x), 18 => PZero, 19 => PAlignUp(r, l), 20 => PAlignDown(r, l),
        21 => PAdd(r, x), 22 => PSub(r, x), 23 => PAddAssign(r, x), 24 => PSubAssign(r, x), 25 => PgContaining(s, r),
        26 => PgFromStart(s, r), 27 => PgAdd(s, r, x), 28 => PgSub(s, r, x), 29 => PgAddAssign(s, r, x),
        30 => PgSubAssign(s, r, x), 31 => PgFwd(s, r, x), 32 => PgBwd(s, r, x), 33 => PgFwdChecked(s, r, x),
        34 => PgBwdChecked(s, r, x), 35 => PgFromIdx(s, i(u), i(u), i(u), i(u)), 36 => PgStart(s, r),
        37 => FrContaining(s, r), 38 => FrFromStart(s, r), 39 => FrAdd(s, r, x), 40 => FrSub(s, r, x),
        41 => FrAddAssign(s, r, x), 42 => FrSubAssign(s, r, x), 43 => FrStart(s, r), 44 => PteAddr(x),
        _ => IdtHandlerAddr(x, edge(u)),
    }
}

pub fn addr_target(u: &mut Unstructured) {
    let mut obs = Obs::default();
    match u.arbitrary::<u8>().unwrap_or(0) % 10 {
        0 => {
            let n = 1 + u.arbitrary::<u8>().unwrap_or(0) as usize % 24;
            let prog: Vec<c03::Op> = (0..n).map(|_| op03(u)).collect();
            report("C03", "prog", &prog, c03::prog(&prog, &mut obs));
        }
        1 => {
            let x = edge(u);
            report("C03", "ctor", &x, c03::ctor(&x, &mut obs));
        }
        2 => {
            let c = (canon(u), edge(u), canon(u));
            report("C05", "vaddr", &c, c05::vstep(&c, &mut obs));
        }
        3 => {
            let c = (u.arbitrary::<u8>().unwrap_or(0) % 3, canon(u), edge(u), canon(u));
            report("C05", "page", &c, c05::pstep(&c, &mut obs));
        }
        4 => {
            let c = (edge(u), if u.arbitrary::<bool>().unwrap_or(true) { 1u64 << (u.arbitrary::<u8>().unwrap_or(0) % 64) } else { edge(u) });
            report("C06", "raw", &c, c06::raw(&c, &mut obs));
        }
        5 => {
            let mut bad = edge(u);
            if bad.is_power_of_two() {
                bad = 3;
            }
            let c = (canon(u), u.arbitrary::<u8>().unwrap_or(0) % 48, bad);
            report("C06", "virt", &c, c06::virt(&c, &mut obs));
        }
        6 => {
            let mut bad = edge(u);
            if bad.is_power_of_two() {
                bad = 0;
            }
            let c = (physa(u), u.arbitrary::<u8>().unwrap_or(0) % 64, bad);
            report("C06", "phys", &c, c06::physc(&c, &mut obs));
        }
        7 => {
            let c = (canon(u), physa(u), edge(u), edge(u));
            report("C07", "addr_ops", &c, c07::addr_ops(&c, &mut obs));
        }
        8 => {
            let c = (u.arbitrary::<u8>().unwrap_or(0) % 3, canon(u), physa(u), edge(u), edge(u));
            report("C07", "page_ops", &c, c07::page_ops(&c, &mut obs));
        }
        _ => {
            let c = c07::RangeCase {
                size: u.arbitrary::<u8>().unwrap_or(0) % 3,
                space: u.arbitrary::<u8>().unwrap_or(0) % 3,
                dist: u.arbitrary::<u16>().unwrap_or(0) as u32,
                from_end: u.arbitrary().unwrap_or(false),
                len: u.arbitrary::<u16>().unwrap_or(0) % 600,
                inclusive: u.arbitrary().unwrap_or(false),
                inverted_by: if u.arbitrary::<u8>().unwrap_or(0) < 25 { 1 + u.arbitrary::<u8>().unwrap_or(0) % 3 } else { 0 },
            };
            report("C07", "ranges", &c, c07::ranges(&c, &mut obs));
        }
    }
}

fn set08(u: &mut Unstructured) -> c08::Set {
    let a = physa(u);
    let f = u.arbitrary::<u64>().unwrap_or(0) & c08::FLAG_DOMAIN;
    match u.arbitrary::<u8>().unwrap_or(0) % 9 {
        0 | 1 => c08::Set::Addr(a & !0xfff, f),
        2 | 3 => c08::Set::Frame(a & !0xfff, f),
        4 | 5 | 6 => c08::Set::Flags(f),
        7 => c08::Set::Unused,
        _ => c08::Set::AddrUnaligned(a | 1, f),
    }
}

pub fn pte_target(u: &mut Unstructured) {
    let mut obs = Obs::default();
    if u.arbitrary::<bool>().unwrap_or(true) {
        let n = 1 + u.arbitrary::<u8>().unwrap_or(0) as usize % 16;
        let prog: Vec<c08::Set> = (0..n).map(|_| set08(u)).collect();
        report("C08", "entry", &prog, c08::entry_prog(&prog, &mut obs));
    } else {
        let n = 1 + u.arbitrary::<u8>().unwrap_or(0) as usize % 24;
        let prog: Vec<c08::TableStep> = (0..n)
            .map(|_| c08::TableStep { slot: u.arbitrary::<u16>().unwrap_or(0) % 512, path: u.arbitrary::<u8>().unwrap_or(0) % 3, set: set08(u), read_path: u.arbitrary::<u8>().unwrap_or(0) % 4 })
            .collect();
        let c = (prog, u.arbitrary::<bool>().unwrap_or(false));
        report("C08", "table", &c, c08::table_prog(&c, &mut obs));
    }
}

pub fn gdt_target(u: &mut Unstructured) {
    let mut obs = Obs::default();
    if u.arbitrary::<u8>().unwrap_or(0) % 4 != 0 {
        let n = u.arbitrary::<u8>().unwrap_or(0) as usize % 12;
        let apps: Vec<c14::App> = (0..n).map(|_| if u.arbitrary::<bool>().unwrap_or(true) { c14::App::User(edge(u)) } else { c14::App::System(edge(u), edge(u)) }).collect();
        let h = c14::Hist { cap: u.arbitrary::<u8>().unwrap_or(0) % 5, start_below_cap: u.arbitrary::<u8>().unwrap_or(0), apps, load_at: 255 };
        report("C14", "appends", &h, c14::hist(&h, &mut obs));
    } else {
        let n = 1 + u.arbitrary::<u8>().unwrap_or(0) as usize % 7;
        let body: Vec<u64> = (0..n).map(|_| edge(u)).collect();
        let c = (u.arbitrary::<u8>().unwrap_or(0) % 6, body, u.arbitrary::<u8>().unwrap_or(0), u.arbitrary::<u8>().unwrap_or(0) % 5 != 0);
        report("C14", "from_raw", &c, c14::raw_case(&c, &mut obs));
    }
}

fn mop(u: &mut Unstructured) -> mapper::MOp {
    use mapper::MOp::*;
    let a = |u: &mut Unstructured| u.arbitrary::<u16>().unwrap_or(0);
    let sz = u.arbitrary::<u8>().unwrap_or(0) % 3;
    let fail = if u.arbitrary::<u8>().unwrap_or(0) < 40 { 1 + u.arbitrary::<u8>().unwrap_or(0) % 4 } else { 0 };
    match u.arbitrary::<u8>().unwrap_or(0) % 16 {
        0 | 1 | 2 | 3 | 4 => Map { sz, page: a(u), frame: a(u), flags: a(u), pflags: if u.arbitrary::<bool>().unwrap_or(false) { Some(a(u)) } else { None }, fail },
        5 => IdentityMap { sz, frame: a(u), flags: a(u), fail },
        6 | 7 | 8 => Unmap { sz, page: a(u) },
        9 => UpdateFlags { sz, page: a(u), flags: a(u) },
        10 | 11 => SetFlagsP { t: 2 + u.arbitrary::<u8>().unwrap_or(0) % 3, sz, page: a(u), pflags: a(u) },
        12 => TranslatePage { sz, page: a(u) },
        13 => Translate { page: a(u), off: u.arbitrary::<u32>().unwrap_or(0) },
        14 => CleanUp,
        _ => CleanUpRange { a: a(u), b: a(u), mode: u.arbitrary::<u8>().unwrap_or(0) % 8 },
    }
}

/// Mapper histories on the MappedPageTable backend only (no signal handling needed, so libFuzzer's own
/// handlers stay in place). The PAT-bit known finding is always excluded here.
pub fn mapper_target(u: &mut Unstructured) {
    unsafe {
        mapper::KNOWN = mapper::Known { pat_huge: true };
    }
    let na = 1 + u.arbitrary::<u8>().unwrap_or(0) as usize % 3;
    let anchors = (0..na).map(|_| (u.arbitrary::<u16>().unwrap_or(0) % 512, u.arbitrary::<u16>().unwrap_or(0) % 512, u.arbitrary::<u16>().unwrap_or(0) % 512, u.arbitrary::<u16>().unwrap_or(0) % 512)).collect();
    let frames = (0..3).map(|_| physa(u)).collect();
    let flag_sets = (0..3).map(|_| u.arbitrary::<u64>().unwrap_or(0) & mapper::LEAF_FLAG_BITS).collect();
    let pflag_sets = (0..3).map(|_| u.arbitrary::<u64>().unwrap_or(0) & mapper::PARENT_FLAG_BITS).collect();
    let alloc = (0..20).map(|k| if u.arbitrary::<bool>().unwrap_or(true) { u.arbitrary::<u32>().unwrap_or(k) } else { k * 512 }).collect();
    let n = u.arbitrary::<u8>().unwrap_or(0) as usize % 40;
    let ops = (0..n).map(|_| mop(u)).collect();
    let case = mapper::MapCase { p0: u.arbitrary::<u64>().unwrap_or(0), rec: 0, cr3_low: 0, anchors, frames, flag_sets, pflag_sets, alloc, ops };
    let all = mapper::T_C01 | mapper::T_C02 | mapper::T_C09 | mapper::T_C10 | mapper::T_C11;
    let r = mapper::run_backend_opts(&case, mapper::Backend::Mapped, all, false);
    if let Some(f) = r.fail {
        if f.tag != 0 {
            let t = mapper::lowest(f.tag);
            let prop = mapper::tag_name(t);
            let sub = match t {
                mapper::T_C02 => "error_states",
                mapper::T_C09 => "memory_discipline",
                mapper::T_C10 => "cleanup",
                _ => "histories",
            };
            let prop = if prop == "C11" { "C01" } else { prop };
            report(prop, sub, &case, Err(format!("[{}] {}", mapper::tag_name(t), f.msg)));
        }
    }
}
