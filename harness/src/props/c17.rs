//! C17 — without_interrupts restores the interrupt flag; enable_and_hlt is atomic (hook H2).
use crate::engine::{CaseResult, Obs, Run};
use crate::umh::{self, cpu, Op};
use crate::{ensure, ensure_eq};
use proptest::prelude::*;
use serde::{Deserialize, Serialize};
use std::cell::RefCell;
use x86_64::instructions::interrupts;

#[derive(Debug, Clone, Serialize, Deserialize)]
pub enum Stmt {
    Nested(Vec<Stmt>),
    Probe,
    BalancedToggle,
    Value(u64),
    EnableDisable,
}

fn stmt() -> impl Strategy<Value = Stmt> {
    let leaf = prop_oneof![
        3 => Just(Stmt::Probe),
        3 => Just(Stmt::BalancedToggle),
        2 => any::<u64>().prop_map(Stmt::Value),
        1 => Just(Stmt::EnableDisable),
    ];
    leaf.prop_recursive(6, 40, 5, |inner| {
        prop_oneof![
            3 => proptest::collection::vec(inner.clone(), 0..5).prop_map(Stmt::Nested),
            1 => inner,
        ]
    })
}

struct Ctx {
    errors: RefCell<Vec<String>>,
    max_depth_if0: RefCell<u32>,
    calls: RefCell<u64>,
}

fn snapshot() -> ([u64; 16], [u64; 8], u64, usize) {
    let c = cpu();
    (c.cr, c.dr, c.xcr0, c.msr_len)
}

/// Interpret a block; returns its value. `depth` = number of enclosing without_interrupts.
fn block(stmts: &[Stmt], depth: u32, ctx: &Ctx) -> u64 {
    let mut val = 0x5eed_0000 + depth as u64;
    for s in stmts {
        match s {
            Stmt::Probe => {
                let want = cpu().if_flag;
                let got = interrupts::are_enabled();
                if got != want {
                    ctx.errors.borrow_mut().push(format!("are_enabled() = {} but the interrupt flag is {}", got, want));
                }
            }
            Stmt::BalancedToggle | Stmt::EnableDisable => {
                let before = cpu().if_flag;
                let snap = snapshot();
                let l0 = cpu().log_len;
                let first_enable = !before;
                if first_enable {
                    interrupts::enable();
                } else {
                    interrupts::disable();
                }
                let mid = cpu().if_flag;
                if mid != first_enable {
                    ctx.errors.borrow_mut().push(format!("{}() left the flag at {}", if first_enable { "enable" } else { "disable" }, mid));
                }
                if first_enable {
                    interrupts::disable();
                } else {
                    interrupts::enable();
                }
                let after = cpu().if_flag;
                if after != before {
                    ctx.errors.borrow_mut().push(format!("toggle back left the flag at {} (was {})", after, before));
                }
                let log = &cpu().log()[l0..];
                let want: [Op; 2] = if first_enable { [Op::Sti, Op::Cli] } else { [Op::Cli, Op::Sti] };
                if log.len() != 2 || log[0].op != want[0] || log[1].op != want[1] {
                    ctx.errors.borrow_mut().push(format!("enable/disable executed {:x?}, expected exactly {:?}", log, want));
                }
                if snapshot() != snap {
                    ctx.errors.borrow_mut().push("enable/disable changed another emulated register".to_string());
                }
            }
            Stmt::Value(v) => val = *v,
            Stmt::Nested(inner) => {
                let before = cpu().if_flag;
                let l0 = cpu().log_len;
                let runs = RefCell::new(0u32);
                let entry_log = RefCell::new(0usize);
                let exit_log = RefCell::new(0usize);
                let inner_val = RefCell::new(0u64);
                *ctx.calls.borrow_mut() += 1;
                let ret = interrupts::without_interrupts(|| {
                    *runs.borrow_mut() += 1;
                    *entry_log.borrow_mut() = cpu().log_len;
                    if cpu().if_flag {
                        ctx.errors.borrow_mut().push(format!("closure at depth {} entered with interrupts enabled (flag before the call: {})", depth + 1, before));
                    }
                    if !before {
                        let mut m = ctx.max_depth_if0.borrow_mut();
                        *m = (*m).max(depth + 1);
                    }
                    let v = block(inner, depth + 1, ctx);
                    if cpu().if_flag {
                        ctx.errors.borrow_mut().push("harness: closure body changed the flag".to_string());
                    }
                    *inner_val.borrow_mut() = v;
                    *exit_log.borrow_mut() = cpu().log_len;
                    v
                });
                let l1 = cpu().log_len;
                let after = cpu().if_flag;
                let mut e = ctx.errors.borrow_mut();
                if *runs.borrow() != 1 {
                    e.push(format!("closure ran {} times", runs.borrow()));
                    continue;
                }
                if ret != *inner_val.borrow() {
                    e.push(format!("without_interrupts returned {:#x}, closure returned {:#x}", ret, *inner_val.borrow()));
                }
                if after != before {
                    e.push(format!("interrupt flag after without_interrupts = {} but was {} before (depth {})", after, before, depth + 1));
                }
                // only cli/sti may be executed around the closure; which of them is implied by the flag
                // conditions above (IF = 0 inside, IF restored afterwards), so an implementation that
                // e.g. executes cli unconditionally is not rejected
                let pre: Vec<Op> = cpu().log()[l0..*entry_log.borrow()].iter().map(|t| t.op).collect();
                let post: Vec<Op> = cpu().log()[*exit_log.borrow()..l1].iter().map(|t| t.op).collect();
                if pre.iter().chain(post.iter()).any(|o| !matches!(o, Op::Cli | Op::Sti)) {
                    e.push(format!("without_interrupts executed something other than cli/sti: before the closure {:?}, after it {:?}", pre, post));
                }
                if before && !pre.contains(&Op::Cli) {
                    e.push(format!("interrupts were enabled at entry but no cli was executed before the closure: {:?}", pre));
                }
                if !before && (pre.contains(&Op::Sti) || post.contains(&Op::Sti)) {
                    e.push(format!("interrupts were disabled at entry but sti was executed: before {:?}, after {:?}", pre, post));
                }
                val ^= ret.rotate_left(7);
            }
        }
    }
    val
}

fn depth_of(s: &[Stmt]) -> u32 {
    s.iter()
        .map(|x| match x {
            Stmt::Nested(i) => 1 + depth_of(i),
            _ => 0,
        })
        .max()
        .unwrap_or(0)
}

fn shape(s: &[Stmt], out: &mut Vec<u8>) {
    for x in s {
        match x {
            Stmt::Nested(i) => {
                out.push(1);
                shape(i, out);
                out.push(2);
            }
            Stmt::Probe => out.push(3),
            Stmt::BalancedToggle => out.push(4),
            Stmt::Value(_) => out.push(5),
            Stmt::EnableDisable => out.push(6),
        }
    }
}

/// RFLAGS bits other than IF that the overlay may show (are_enabled must report IF only)
const NOISE_BITS: u64 = 0xffff_ffff_ffff_fdd5 & !(1 << 8) & !(1 << 1) & !(1 << 3) & !(1 << 5) | (1 << 10) | (1 << 11);

pub fn prog(c: &(bool, Vec<Stmt>, u64, u64), obs: &mut Obs) -> CaseResult {
    let (init, stmts, noise_mask, noise_value) = c;
    let cp = cpu();
    cp.reset();
    cp.set_if(*init);
    cp.set_flags_overlay(true, noise_mask & NOISE_BITS, *noise_value);
    let ctx = Ctx { errors: RefCell::new(vec![]), max_depth_if0: RefCell::new(0), calls: RefCell::new(0) };
    let _ = block(stmts, 0, &ctx);
    let final_if = cpu().if_flag;
    let overflow = cpu().log_overflow;
    let unexpected = cpu().unexpected;
    cp.reset();
    if let Some(e) = ctx.errors.borrow().first() {
        return Err(e.clone());
    }
    ensure_eq!(final_if, *init, "flag at the end of the program");
    ensure!(!overflow, "trap log overflow");
    ensure!(unexpected == 0, "unexpected faults");
    obs.add_evals(*ctx.calls.borrow());
    let d = depth_of(stmts);
    obs.label(format!("depth{}", d.min(6)));
    if noise_mask & noise_value & NOISE_BITS & !0x3ff != 0 {
        obs.label("other-rflags-bits-above-IF-set");
    }
    if d >= 2 && *ctx.max_depth_if0.borrow() >= 1 {
        let mut sh = vec![*init as u8, (noise_mask & noise_value & NOISE_BITS & !0x3ff != 0) as u8];
        shape(stmts, &mut sh);
        obs.nontrivial(&sh);
        obs.label("nested-with-IF0-on-path");
    }
    Ok(())
}

fn hlt_case(init: &bool, obs: &mut Obs) -> CaseResult {
    let cp = cpu();
    cp.reset();
    cp.set_if_overlay(true);
    cp.set_if(*init);
    interrupts::enable_and_hlt();
    let log = cp.take_log();
    let fin = cpu().if_flag;
    cp.reset();
    ensure!(log.len() == 2 && log[0].op == Op::Sti && log[1].op == Op::Hlt, "enable_and_hlt executed {:x?}, expected sti; hlt", log);
    ensure_eq!(log[1].rip, log[0].rip + log[0].len as u64, "hlt must be the instruction immediately after sti ({:x?})", log);
    ensure_eq!(log[0].len, 1u8, "sti length");
    ensure!(fin, "interrupts must be enabled after enable_and_hlt");
    // plain hlt: exactly one hlt, flag unchanged
    cp.set_if(*init);
    x86_64::instructions::hlt();
    let log = cp.take_log();
    ensure!(log.len() == 1 && log[0].op == Op::Hlt, "hlt() executed {:x?}", log);
    ensure_eq!(cpu().if_flag, *init, "hlt() must not change the flag");
    cp.reset();
    obs.nontrivial(init);
    Ok(())
}

/// Many live values across the calls: the wrappers must not disturb the caller's state (e.g. by an
/// asm block that pushes onto the stack while claiming `nostack`, which clobbers the red zone of an
/// inlined leaf caller in optimised builds) and must return exactly the closure's result.
#[inline(never)]
fn live_values(v: &[u64; 24], mode: u8) -> (u64, u64, bool) {
    use std::hint::black_box;
    let (a0, a1, a2, a3, a4, a5, a6, a7) = (black_box(v[0]), black_box(v[1]), black_box(v[2]), black_box(v[3]), black_box(v[4]), black_box(v[5]), black_box(v[6]), black_box(v[7]));
    let (b0, b1, b2, b3, b4, b5, b6, b7) = (black_box(v[8]), black_box(v[9]), black_box(v[10]), black_box(v[11]), black_box(v[12]), black_box(v[13]), black_box(v[14]), black_box(v[15]));
    let (c0, c1, c2, c3, c4, c5, c6, c7) = (black_box(v[16]), black_box(v[17]), black_box(v[18]), black_box(v[19]), black_box(v[20]), black_box(v[21]), black_box(v[22]), black_box(v[23]));
    let mid: u64;
    let flag: bool;
    match mode % 3 {
        0 => {
            flag = interrupts::are_enabled();
            mid = a3 ^ b5;
        }
        1 => {
            let r = interrupts::without_interrupts(|| (interrupts::are_enabled(), a1.wrapping_mul(3) ^ c2));
            flag = r.0;
            mid = r.1;
        }
        _ => {
            let r = interrupts::without_interrupts(|| interrupts::without_interrupts(|| (interrupts::are_enabled(), b7.rotate_left(9).wrapping_add(c6))));
            flag = r.0;
            mid = r.1;
        }
    }
    let sum = a0
        .wrapping_add(a1.rotate_left(1))
        .wrapping_add(a2.rotate_left(2))
        .wrapping_add(a3.rotate_left(3))
        .wrapping_add(a4.rotate_left(4))
        .wrapping_add(a5.rotate_left(5))
        .wrapping_add(a6.rotate_left(6))
        .wrapping_add(a7.rotate_left(7))
        .wrapping_add(b0.rotate_left(8))
        .wrapping_add(b1.rotate_left(9))
        .wrapping_add(b2.rotate_left(10))
        .wrapping_add(b3.rotate_left(11))
        .wrapping_add(b4.rotate_left(12))
        .wrapping_add(b5.rotate_left(13))
        .wrapping_add(b6.rotate_left(14))
        .wrapping_add(b7.rotate_left(15))
        .wrapping_add(c0.rotate_left(16))
        .wrapping_add(c1.rotate_left(17))
        .wrapping_add(c2.rotate_left(18))
        .wrapping_add(c3.rotate_left(19))
        .wrapping_add(c4.rotate_left(20))
        .wrapping_add(c5.rotate_left(21))
        .wrapping_add(c6.rotate_left(22))
        .wrapping_add(c7.rotate_left(23));
    (sum, mid, flag)
}

fn live_case(c: &(Vec<u64>, u8, bool), obs: &mut Obs) -> CaseResult {
    let (vals, mode, init) = c;
    let mut v = [0u64; 24];
    for (i, x) in vals.iter().take(24).enumerate() {
        v[i] = *x;
    }
    let cp = cpu();
    cp.reset();
    cp.set_if(*init);
    cp.set_flags_overlay(true, 0, 0);
    let (sum, mid, flag) = live_values(&v, *mode);
    let fin = cpu().if_flag;
    cp.reset();
    let mut want = 0u64;
    for i in 0..24 {
        want = want.wrapping_add(v[i].rotate_left(i as u32));
    }
    let want_mid = match mode % 3 {
        0 => v[3] ^ v[13],
        1 => v[1].wrapping_mul(3) ^ v[18],
        _ => v[15].rotate_left(9).wrapping_add(v[22]),
    };
    let want_flag = if mode % 3 == 0 { *init } else { false };
    ensure_eq!(sum, want, "values that were live in the caller across the call (mode {}) changed", mode % 3);
    ensure_eq!(mid, want_mid, "result returned through without_interrupts (mode {})", mode % 3);
    ensure_eq!(flag, want_flag, "are_enabled() (mode {}, initial IF {})", mode % 3, init);
    ensure_eq!(fin, *init, "interrupt flag afterwards");
    obs.nontrivial(&(mode % 3, *init, v[0] & 0xff));
    Ok(())
}

/// The closure's memory effects must happen while the flag is clear: a plain (non-volatile) store made
/// by the closure must not be visible yet at the trapped `cli` and must be visible at the trapped
/// `sti`. (If the wrappers let the compiler move or merge ordinary memory accesses across the flag
/// changes, optimised builds execute the closure's effects outside the interrupt-free window.)
static mut WINDOW_CELL: u64 = 0;

#[inline(never)]
fn window_inner(a: u64, b: u64, c: u64, nested: bool) -> u64 {
    unsafe {
        let cell = core::ptr::addr_of_mut!(WINDOW_CELL);
        *cell = a;
        let r = if nested {
            interrupts::without_interrupts(|| {
                interrupts::without_interrupts(|| {
                    *cell = b;
                    b ^ 0x55
                })
            })
        } else {
            interrupts::without_interrupts(|| {
                *cell = b;
                b ^ 0x55
            })
        };
        *cell = c;
        r
    }
}

fn window_case(c: &(u64, u64, u64, bool), obs: &mut Obs) -> CaseResult {
    let (a, b, cc, nested) = *c;
    if a == b || b == cc {
        return Ok(());
    }
    let cp = cpu();
    cp.reset();
    cp.set_if(true);
    cp.set_flags_overlay(true, 0, 0);
    umh::PROBE.store(core::ptr::addr_of_mut!(WINDOW_CELL), std::sync::atomic::Ordering::SeqCst);
    cp.clear_log();
    let r = window_inner(a, b, cc, nested);
    umh::PROBE.store(core::ptr::null_mut(), std::sync::atomic::Ordering::SeqCst);
    let log = cpu().take_log();
    cp.reset();
    ensure_eq!(r, b ^ 0x55, "result returned through without_interrupts");
    let ops: Vec<Op> = log.iter().map(|t| t.op).collect();
    ensure_eq!(ops, vec![Op::Cli, Op::Sti], "instructions trapped around the closure (initial IF = 1)");
    ensure!(log[0].c != b, "the closure's store ({:#x}) was already in memory when cli executed: it ran before interrupts were disabled", b);
    ensure_eq!(log[1].c, b, "memory at the moment sti executed: the closure's store must have happened inside the interrupt-free window (before: {:#x})", a);
    obs.nontrivial(&(a & 0xff, b & 0xff, nested));
    Ok(())
}

pub fn run(run: &mut Run) {
    umh::install();
    run.assume("cli/sti/hlt executed in ring 3 raise #GP and are emulated on an emulated IF; rflags::read_raw shows that IF through hook H2 (pushfq cannot be trapped)");
    run.assume("'no interrupt window' is decided as adjacency of sti and hlt in the executed instruction stream, not by injecting interrupts");
    let n = run.cases(240_000, 9_000_000);
    run.sub(
        "nesting",
        "initial IF in {0,1} x other RFLAGS bits shown by the overlay (IOPL, DF, OF, NT, RF, VM, AC, VIF, VIP, ID, unmodelled bits) x programs from Block := Stmt*; Stmt := Nested(Block) | Probe | BalancedToggle | Value(u64) | EnableDisable (depth <= 6, <= 40 nodes) interpreted with real nested closures around without_interrupts; oracle: closure runs exactly once with IF=0, result returned, IF after = IF before, only cli/sti are executed around the closure (cli if IF was 1, never sti if IF was 0), enable/disable = exactly one sti/cli and no other emulated register changes, are_enabled = emulated IF; non-trivial = nesting depth >= 2 with IF=0 at entry of some without_interrupts (the branch user space can never reach natively); distinct by (initial IF, statement shape)",
        n,
        (any::<bool>(), proptest::collection::vec(stmt(), 0..6), prop_oneof![Just(0u64), any::<u64>(), Just(u64::MAX)], any::<u64>()),
        prog,
    );
    let n = run.cases(60_000, 2_000_000);
    run.sub(
        "live_state",
        "a non-inlined caller with 24 live u64 values calls are_enabled() / without_interrupts(closure using some of them) / a doubly nested without_interrupts in its middle: every live value, the closure's result and the reported flag must be exact (catches wrappers that disturb the caller's stack or registers, e.g. a pushfq under `nostack` clobbering the red zone in optimised builds)",
        n,
        (proptest::collection::vec(any::<u64>(), 24), 0u8..3, any::<bool>()),
        live_case,
    );
    let n = run.cases(30_000, 1_000_000);
    run.sub(
        "memory_window",
        "a non-inlined caller stores a, calls without_interrupts(closure storing b) (plain stores to one static, also doubly nested), then stores c; the static is sampled by the trap handler at the trapped cli and sti: b must not be there at cli and must be there at sti (the closure's memory effects happen inside the interrupt-free window in every build profile)",
        n,
        (any::<u64>(), any::<u64>(), any::<u64>(), any::<bool>()),
        window_case,
    );
    run.exhaustive(
        "enable_and_hlt",
        "both initial IF states: enable_and_hlt traps exactly sti at A then hlt at A+1 (adjacent in the instruction stream), IF=1 afterwards; hlt() = one hlt, IF unchanged",
        vec![false, true],
        hlt_case,
    );
}
