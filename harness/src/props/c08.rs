//! C08 — page-table entries and tables encode exactly what was stored, in hardware layout.
use crate::engine::{outcome, CaseResult, Obs, Outcome, Run};
use crate::gen::*;
use crate::{ensure, ensure_eq};
use proptest::prelude::*;
use serde::{Deserialize, Serialize};
use x86_64::structures::paging::page_table::{FrameError, PageTableEntry};
use x86_64::structures::paging::{PageTable, PageTableFlags, PageTableIndex, PhysFrame};
use x86_64::PhysAddr;

/// flag domain of the property: bits 0-11 and 52-63
pub const FLAG_DOMAIN: u64 = 0xfff | (0xfff << 52);
const ADDR_MASK: u64 = 0x000f_ffff_ffff_f000;

#[derive(Debug, Clone, Serialize, Deserialize)]
pub enum Set {
    Addr(u64, u64),
    Frame(u64, u64),
    Flags(u64),
    Unused,
    /// unaligned address: must panic and leave the entry unchanged
    AddrUnaligned(u64, u64),
}

pub fn flags_bits() -> impl Strategy<Value = u64> {
    prop_oneof![
        4 => any::<u64>().prop_map(|x| x & FLAG_DOMAIN),
        1 => Just(0u64),
        1 => Just(FLAG_DOMAIN),
        2 => (any::<u64>(), any::<u64>()).prop_map(|(a, b)| a & b & FLAG_DOMAIN),
        2 => (0u32..24).prop_map(|b| if b < 12 { 1u64 << b } else { 1u64 << (b + 40) }),
    ]
}

pub fn aligned_phys() -> impl Strategy<Value = u64> {
    prop_oneof![
        6 => phys().prop_map(|p| p & ADDR_MASK),
        1 => Just(0u64),
        1 => Just(ADDR_MASK),
        1 => Just(0x1000u64),
    ]
}

fn set() -> impl Strategy<Value = Set> {
    prop_oneof![
        3 => (aligned_phys(), flags_bits()).prop_map(|(a, f)| Set::Addr(a, f)),
        3 => (aligned_phys(), flags_bits()).prop_map(|(a, f)| Set::Frame(a, f)),
        3 => flags_bits().prop_map(Set::Flags),
        1 => Just(Set::Unused),
        1 => (phys().prop_filter("unaligned", |p| p & 0xfff != 0), flags_bits()).prop_map(|(a, f)| Set::AddrUnaligned(a, f)),
    ]
}

fn raw_of(e: &PageTableEntry) -> u64 {
    unsafe { core::mem::transmute_copy::<PageTableEntry, u64>(e) }
}

fn check_entry(e: &PageTableEntry, model: u64, ctx: &str) -> CaseResult {
    ensure_eq!(raw_of(e), model, "{}: raw entry bits", ctx);
    ensure_eq!(e.addr().as_u64(), model & ADDR_MASK, "{}: addr()", ctx);
    // on the property's flag domain (bits 0-11, 52-63) flags() returns exactly what was stored
    ensure_eq!(e.flags().bits() & FLAG_DOMAIN, model & FLAG_DOMAIN, "{}: flags()", ctx);
    ensure_eq!(e.is_unused(), model == 0, "{}: is_unused()", ctx);
    match (e.frame(), model & 1 != 0) {
        (Ok(f), true) => ensure_eq!(f.start_address().as_u64(), model & ADDR_MASK, "{}: frame()", ctx),
        (Err(FrameError::FrameNotPresent), false) => {}
        (r, p) => return Err(format!("{}: frame() = {:?} but PRESENT = {}", ctx, r, p)),
    }
    Ok(())
}

fn apply(e: &mut PageTableEntry, model: &mut u64, s: &Set) -> CaseResult {
    match s {
        Set::Addr(a, f) => {
            e.set_addr(PhysAddr::new(*a), PageTableFlags::from_bits_retain(*f));
            *model = a | f;
        }
        Set::Frame(a, f) => {
            e.set_frame(PhysFrame::containing_address(PhysAddr::new(*a)), PageTableFlags::from_bits_retain(*f));
            *model = a | f;
        }
        Set::Flags(f) => {
            e.set_flags(PageTableFlags::from_bits_retain(*f));
            *model = (*model & ADDR_MASK) | f;
        }
        Set::Unused => {
            e.set_unused();
            *model = 0;
        }
        Set::AddrUnaligned(a, f) => {
            let before = raw_of(e);
            let r = outcome(|| e.set_addr(PhysAddr::new(*a), PageTableFlags::from_bits_retain(*f)));
            ensure!(r.is_panic(), "set_addr({:#x}) with an unaligned address must panic", a);
            ensure_eq!(raw_of(e), before, "a rejected set_addr must not change the entry");
        }
    }
    Ok(())
}

pub fn entry_prog(prog: &Vec<Set>, obs: &mut Obs) -> CaseResult {
    let mut e = PageTableEntry::new();
    let mut model = 0u64;
    check_entry(&e, 0, "new()")?;
    ensure!(raw_of(&PageTableEntry::default()) == 0, "default() is all zero");
    let mut kinds = std::collections::BTreeSet::new();
    let mut lowf = false;
    let mut highf = false;
    let mut nz_addr = false;
    for (i, s) in prog.iter().enumerate() {
        apply(&mut e, &mut model, s)?;
        check_entry(&e, model, &format!("after step {} {:x?}", i, s))?;
        // clone is an exact copy
        ensure_eq!(raw_of(&e.clone()), model, "clone()");
        kinds.insert(match s { Set::Addr(..) => 0u8, Set::Frame(..) => 1, Set::Flags(..) => 2, Set::Unused => 3, Set::AddrUnaligned(..) => 4 });
        lowf |= model & 0xfff != 0;
        highf |= model >> 52 != 0;
        nz_addr |= model & ADDR_MASK != 0;
    }
    obs.add_evals(prog.len() as u64);
    if kinds.len() >= 2 && lowf && highf && nz_addr {
        let shape: Vec<u8> = prog
            .iter()
            .map(|s| match s {
                Set::Addr(..) => 0u8,
                Set::Frame(..) => 1,
                Set::Flags(..) => 2,
                Set::Unused => 3,
                Set::AddrUnaligned(..) => 4,
            })
            .collect();
        obs.nontrivial(&(shape, model));
    }
    Ok(())
}

#[derive(Debug, Clone, Serialize, Deserialize)]
pub struct TableStep {
    pub slot: u16,
    pub path: u8,
    pub set: Set,
    pub read_path: u8,
}

pub fn table_step() -> impl Strategy<Value = TableStep> {
    (prop_oneof![Just(0u16), Just(511u16), Just(1u16), Just(510u16), 0u16..512], 0u8..3, set(), 0u8..4)
        .prop_map(|(slot, path, set, read_path)| TableStep { slot, path, set, read_path })
}

fn bytes_of(t: &PageTable) -> &[u8; 4096] {
    unsafe { &*(t as *const PageTable as *const [u8; 4096]) }
}

pub fn table_prog(c: &(Vec<TableStep>, bool), obs: &mut Obs) -> CaseResult {
    let (prog, zero_at_end) = c;
    ensure_eq!(core::mem::size_of::<PageTable>(), 4096usize, "size_of::<PageTable>()");
    ensure_eq!(core::mem::align_of::<PageTable>(), 4096usize, "align_of::<PageTable>()");
    ensure_eq!(core::mem::size_of::<PageTableEntry>(), 8usize, "size_of::<PageTableEntry>()");
    let mut t = Box::new(PageTable::new());
    ensure!((&*t as *const PageTable as usize) % 4096 == 0, "table not 4 KiB aligned");
    ensure!(bytes_of(&t).iter().all(|b| *b == 0), "PageTable::new() is not 4096 zero bytes");
    ensure!(t.is_empty(), "new table must be empty");
    {
        let d: Box<PageTable> = Box::new(Default::default());
        ensure!(bytes_of(&d).iter().all(|b| *b == 0) && d.is_empty(), "PageTable::default() is not an empty table of 4096 zero bytes");
    }
    let mut model = [0u64; 512];
    let mut paths = std::collections::BTreeSet::new();
    for (i, st) in prog.iter().enumerate() {
        let slot = (st.slot % 512) as usize;
        let mut m = model[slot];
        {
            let e: &mut PageTableEntry = match st.path % 3 {
                0 => &mut t[slot],
                1 => &mut t[PageTableIndex::new(slot as u16)],
                _ => t.iter_mut().nth(slot).ok_or("iter_mut() too short")?,
            };
            apply(e, &mut m, &st.set)?;
        }
        model[slot] = m;
        paths.insert((st.path % 3, st.read_path % 4));
        // every read path sees the value
        let got = match st.read_path % 4 {
            0 => raw_of(&t[slot]),
            1 => raw_of(&t[PageTableIndex::new(slot as u16)]),
            2 => raw_of(t.iter().nth(slot).ok_or("iter() too short")?),
            _ => {
                let b = bytes_of(&t);
                u64::from_le_bytes(b[8 * slot..8 * slot + 8].try_into().unwrap())
            }
        };
        ensure_eq!(got, m, "step {}: slot {} written via path {} read via path {}", i, slot, st.path % 3, st.read_path % 4);
    }
    // whole-table comparison: little-endian entries in index order
    let b = bytes_of(&t);
    for i in 0..512 {
        let got = u64::from_le_bytes(b[8 * i..8 * i + 8].try_into().unwrap());
        ensure_eq!(got, model[i], "bytes {}..{} of the table vs slot {}", 8 * i, 8 * i + 8, i);
    }
    let it: Vec<u64> = t.iter().map(raw_of).collect();
    ensure_eq!(it.len(), 512usize, "iter() length");
    ensure!(it.iter().zip(model.iter()).all(|(a, b)| a == b), "iter() order is not index order");
    ensure_eq!(t.iter_mut().count(), 512usize, "iter_mut() length");
    ensure_eq!(t.is_empty(), model.iter().all(|m| *m == 0), "is_empty()");
    let cl = t.clone();
    ensure!(bytes_of(&cl) == bytes_of(&t), "clone() differs");
    // out-of-range index panics
    ensure!(outcome(|| raw_of(&t[512usize])).is_panic(), "t[512] must panic");
    if *zero_at_end {
        t.zero();
        ensure!(bytes_of(&t).iter().all(|b| *b == 0), "zero() must restore 4096 zero bytes");
        ensure!(t.is_empty(), "zeroed table must be empty");
    }
    obs.add_evals(prog.len() as u64);
    if paths.len() >= 2 && model.iter().any(|m| *m != 0) {
        let shape: Vec<(u16, u8, u8)> = prog.iter().map(|s| (s.slot % 512, s.path % 3, s.read_path % 4)).collect();
        obs.nontrivial(&shape);
    }
    if model[0] != 0 {
        obs.label("slot0-used");
    }
    if model[511] != 0 {
        obs.label("slot511-used");
    }
    Ok(())
}

/// is_empty must look at every slot: a single used slot anywhere makes the table non-empty;
/// zero() must clear every slot.
fn single_slot(c: &(u16, u64), obs: &mut Obs) -> CaseResult {
    let (slot, v) = *c;
    let mut t = Box::new(PageTable::new());
    let v = if v == 0 { 1 } else { v };
    t[slot as usize].set_addr(PhysAddr::new(v & ADDR_MASK), PageTableFlags::from_bits_retain(v & FLAG_DOMAIN));
    if v & (ADDR_MASK | FLAG_DOMAIN) != 0 {
        ensure!(!t.is_empty(), "table with only slot {} = {:#x} set reports is_empty()", slot, v);
    }
    for i in 0..512usize {
        let want = if i == slot as usize { v & (ADDR_MASK | FLAG_DOMAIN) } else { 0 };
        ensure_eq!(raw_of(&t[i]), want, "slot {} after writing slot {}", i, slot);
    }
    // fill everything, then zero
    for e in t.iter_mut() {
        e.set_flags(PageTableFlags::from_bits_retain(FLAG_DOMAIN));
    }
    t.zero();
    ensure!(bytes_of(&t).iter().all(|b| *b == 0), "zero() left non-zero bytes");
    obs.nontrivial(&slot);
    Ok(())
}

pub fn run(run: &mut Run) {
    let n = run.cases(300_000, 12_000_000);
    run.sub(
        "entry",
        "programs of 1..16 set_addr/set_frame/set_flags/set_unused (+ unaligned set_addr as the panic side) with 4KiB-aligned addresses <2^52 and flag sets from bits 0-11 and 52-63; oracle: model u64, transmuted raw entry == addr|flags after every step, addr()/flags()/is_unused()/frame() agree with it, set_flags keeps the address; non-trivial = >=2 setter kinds, non-zero address, flags from both bit groups; distinct by (setter sequence, final raw value)",
        n,
        proptest::collection::vec(set(), 1..16),
        entry_prog,
    );
    let n = run.cases(60_000, 2_400_000);
    run.sub(
        "table",
        "programs of 1..24 writes to slots (0,1,510,511 frequent) through one of three write paths ([usize], [PageTableIndex], iter_mut().nth) and read back through one of four (the three + raw little-endian bytes 8i..8i+8); then whole-table byte comparison, iter order, is_empty, clone, zero(); size_of=align_of=4096; non-trivial = >=2 distinct (write path, read path) pairs on a non-empty table",
        n,
        (proptest::collection::vec(table_step(), 1..24), any::<bool>()),
        table_prog,
    );
    run.exhaustive(
        "single_slot",
        "all 512 slots: a table with exactly that slot used is non-empty, all other slots read zero, zero() clears a completely filled table",
        (0u16..512).map(|s| (s, 0x0008_0000_0000_1003u64 ^ ((s as u64) << 13))),
        single_slot,
    );
}
