//! C10 — clean_up frees exactly the empty in-range tables, once; translations unchanged.
use crate::engine::Run;
use crate::props::mapper::*;

pub fn run(run: &mut Run) {
    crate::umh::install();
    crate::props::c02::common_assumptions(run);
    crate::props::c02::known_findings(run);
    let n = run.cases(48_000, 1_500_000);
    let max_ops = if run.tier == crate::engine::Tier::Quick { 32 } else { 96 };
    run.sub(
        "cleanup",
        "C01 histories engineered to leave empty tables (unmaps, failed maps with allocation failures) followed by clean_up() / clean_up_addr_range(r) with r from: single page, empty (inverted), exactly one P1/P2/P3 table, up to the last page, from page 0, arbitrary pool pages (unaligned, spanning tables of every level and the canonical gap); each clean-up is immediately repeated; oracle: every deallocated frame is a level-1..3 table of the hierarchy that overlaps the range, is empty in the model and all-zero and unlinked in memory at the moment of deallocation, never twice, never the level-4 frame; afterwards no empty table wholly inside the range is left, no probe translation changed, whole-memory comparison (tables outside the range untouched), the repeated clean-up deallocates nothing, identical freed sets across implementations; non-trivial = a clean-up that freed at least one table and left at least one in place",
        n,
        map_case([12, 1, 10, 1, 1, 1, 1, 5, 8], max_ops),
        |c, obs| run_case(c, T_C10 | T_C02, obs),
    );
}
