//! C09 — mappers touch only page-table memory, zero new tables, allocate only as needed.
use crate::engine::Run;
use crate::props::mapper::*;

pub fn run(run: &mut Run) {
    crate::umh::install();
    crate::props::c02::common_assumptions(run);
    crate::props::c02::known_findings(run);
    run.assume("every simulated frame is pre-filled with deterministic non-zero junk shaped like present entries pointing at a guard frame; released tables are handed out again first (recycled frames)");
    let n = run.cases(48_000, 1_500_000);
    let max_ops = if run.tier == crate::engine::Tier::Quick { 32 } else { 96 };
    run.sub(
        "memory_discipline",
        "the C01/C02 histories with more unmap/clean-up/re-map cycles (recycled frames) and 2MiB/1GiB-aligned table frames; oracle per call: every materialised physical frame equals the model's expectation (tables: rendering; released tables: zero; everything else: its junk) so any stray write is seen, access logs (frame_to_pointer arguments / offset-window faults / MMU fault log with the frame each recursive access really reached) stay inside the hierarchy's tables, frames obtained in the call are zero except for the entries written, allocator requests = missing tables (<= 1/2/3 by size, 0 when present), only clean-up releases and it never allocates; non-trivial = a call that allocated a recycled frame or was issued on/inside a huge leaf",
        n,
        map_case([12, 2, 8, 3, 3, 2, 2, 4, 3], max_ops),
        |c, obs| run_case(c, T_C09, obs),
    );
}
