//! C13 — set_general_handler installs, per vector, a stub that reports that vector.
use crate::deliver::{self, DeliverArgs};
use crate::engine::{CaseResult, Obs, Run};
use crate::gen::*;
use crate::umh;
use crate::{ensure, ensure_eq};
use proptest::prelude::*;
use std::ops::Bound;
use x86_64::registers::rflags::RFlags;
use x86_64::registers::segmentation::SegmentSelector;
use x86_64::set_general_handler;
use x86_64::structures::idt::{InterruptDescriptorTable, InterruptStackFrame, InterruptStackFrameValue};
use x86_64::VirtAddr;

pub fn reserved(v: usize) -> bool {
    matches!(v, 15 | 22..=27 | 31)
}
pub fn has_error_code(v: usize) -> bool {
    matches!(v, 8 | 10..=14 | 17 | 21 | 29 | 30)
}
pub fn diverging(v: usize) -> bool {
    matches!(v, 8 | 18)
}

#[derive(Clone, Copy, Default, Debug)]
struct Seen {
    calls: u64,
    index: u8,
    err: Option<u64>,
    rip: u64,
    cs: u16,
    flags: u64,
    rsp: u64,
    ss: u16,
    frame_addr: u64,
}
static mut SEEN: Seen = Seen { calls: 0, index: 0, err: None, rip: 0, cs: 0, flags: 0, rsp: 0, ss: 0, frame_addr: 0 };

fn general_handler(frame: InterruptStackFrame, index: u8, error_code: Option<u64>) {
    unsafe {
        let s = &mut *core::ptr::addr_of_mut!(SEEN);
        s.calls += 1;
        s.index = index;
        s.err = error_code;
        s.rip = frame.instruction_pointer.as_u64();
        s.cs = frame.code_segment.0;
        s.flags = frame.cpu_flags.bits();
        s.rsp = frame.stack_pointer.as_u64();
        s.ss = frame.stack_segment.0;
        s.frame_addr = &*frame as *const InterruptStackFrameValue as u64;
        if diverging(index as usize) {
            // the stub would panic inside a non-unwinding ABI if we returned
            deliver::vharness_deliver_escape();
        }
    }
}

extern "C" {
    static __executable_start: u8;
    static etext: u8;
}
/// independent sanity of a gate offset before jumping to it: it must lie in the text segment
fn is_code_address(a: u64) -> bool {
    let (lo, hi) = unsafe { (&__executable_start as *const u8 as u64, &etext as *const u8 as u64) };
    a >= lo && a < hi
}

fn raw(idt: &InterruptDescriptorTable) -> &[[u8; 16]; 256] {
    unsafe { &*(idt as *const _ as *const [[u8; 16]; 256]) }
}
fn present(e: &[u8; 16]) -> bool {
    e[5] & 0x80 != 0
}
fn handler_of(e: &[u8; 16]) -> u64 {
    let lo = u16::from_le_bytes([e[0], e[1]]) as u64;
    let mid = u16::from_le_bytes([e[6], e[7]]) as u64;
    let hi = u32::from_le_bytes([e[8], e[9], e[10], e[11]]) as u64;
    lo | (mid << 16) | (hi << 32)
}

// one macro expansion per syntactic form (each expands to 256 stubs)
fn install_incl(idt: &mut InterruptDescriptorTable, lo: u8, hi: u8) {
    set_general_handler!(idt, general_handler, lo..=hi);
}
fn install_full(idt: &mut InterruptDescriptorTable) {
    set_general_handler!(idt, general_handler);
}
fn install_excl(idt: &mut InterruptDescriptorTable, lo: u8, hi: u8) {
    set_general_handler!(idt, general_handler, lo..hi);
}
fn install_literal_14(idt: &mut InterruptDescriptorTable) {
    set_general_handler!(idt, general_handler, 14);
}
fn install_literal_28(idt: &mut InterruptDescriptorTable) {
    set_general_handler!(idt, general_handler, 28);
}
fn install_literal_21(idt: &mut InterruptDescriptorTable) {
    set_general_handler!(idt, general_handler, 21);
}
fn install_literal_255(idt: &mut InterruptDescriptorTable) {
    set_general_handler!(idt, general_handler, 255);
}
fn install_bounds(idt: &mut InterruptDescriptorTable, lo: Bound<u8>, hi: Bound<u8>) {
    set_general_handler!(idt, general_handler, (lo, hi));
}
fn install_from(idt: &mut InterruptDescriptorTable, lo: u8) {
    set_general_handler!(idt, general_handler, lo..);
}

fn check_installed(idt: &InterruptDescriptorTable, in_range: impl Fn(usize) -> bool, reference: Option<&InterruptDescriptorTable>, what: &str) -> CaseResult {
    let before = MISSING_TABLE.with(|t| t.clone());
    check_installed_over(idt, raw(&before), in_range, reference, what)
}

/// `before` = raw content of the table before the installation
fn check_installed_over(idt: &InterruptDescriptorTable, before: &[[u8; 16]; 256], in_range: impl Fn(usize) -> bool, reference: Option<&InterruptDescriptorTable>, what: &str) -> CaseResult {
    let r = raw(idt);
    for v in 0..256 {
        let want = in_range(v) && !reserved(v);
        if want {
            ensure!(present(&r[v]), "{}: vector {} is in the range and not reserved but was not made present", what, v);
            ensure!(handler_of(&r[v]) != 0, "{}: vector {} present without handler address", what, v);
            if let Some(refi) = reference {
                ensure_eq!(r[v], raw(refi)[v], "{}: entry of vector {} differs from the one the same macro site installs for the full range", what, v);
            }
        } else {
            ensure_eq!(r[v], before[v], "{}: vector {} (in range: {}, reserved: {}) must be left untouched", what, v, in_range(v), reserved(v));
        }
    }
    Ok(())
}

/// installation over a table that already holds entries: everything outside the range keeps its bytes
fn prepopulated_case(c: &(u8, u8, Vec<(u8, u64, u8)>), obs: &mut Obs) -> CaseResult {
    let (lo, hi, pre) = c;
    let mut idt = Box::new(InterruptDescriptorTable::new());
    for (v, addr, opt) in pre {
        let v = 32 + (*v as usize % 224);
        let o = unsafe { idt[v as u8].set_handler_addr(VirtAddr::new(crate::gen::sign_extend48(*addr))) };
        if opt & 1 != 0 {
            o.disable_interrupts(false);
        }
        if opt & 2 != 0 {
            o.set_privilege_level(x86_64::PrivilegeLevel::Ring3);
        }
        if opt & 4 != 0 {
            unsafe { o.set_stack_index((*opt >> 3) as u16 % 7) };
        }
    }
    // a named exception entry as well
    unsafe { idt.page_fault.set_handler_addr(VirtAddr::new(0x1234_5000)) };
    let before = *raw(&idt);
    install_incl(&mut idt, *lo, *hi);
    let reference = FULL_INCL.with(|t| t.clone());
    check_installed_over(&idt, &before, |v| v >= *lo as usize && v <= *hi as usize, Some(&reference), &format!("set_general_handler!(.., {}..={}) over a pre-populated table", lo, hi))?;
    // the same installation (same macro site) once more after some of the installed gates have been
    // masked with set_present(false) while keeping their handler address: every non-reserved vector
    // of the range must be present again
    let mut masked = 0;
    for (v, _, _) in pre {
        let v = 32 + (*v as usize % 224);
        if v >= *lo as usize && v <= *hi as usize {
            let a = idt[v as u8].handler_addr();
            unsafe { idt[v as u8].set_handler_addr(a).set_present(false) };
            masked += 1;
        }
    }
    if *lo <= 3 && *hi >= 3 {
        let a = idt.breakpoint.handler_addr();
        unsafe { idt.breakpoint.set_handler_addr(a).set_present(false) };
        masked += 1;
    }
    if masked > 0 {
        let before2 = *raw(&idt);
        install_incl(&mut idt, *lo, *hi);
        check_installed_over(&idt, &before2, |v| v >= *lo as usize && v <= *hi as usize, Some(&reference), &format!("second set_general_handler!(.., {}..={}) from the same site after {} installed gates were masked with set_present(false)", lo, hi, masked))?;
        obs.label("reinstalled-over-masked-gates");
    }
    if !pre.is_empty() {
        obs.nontrivial(&(lo, hi, pre.len()));
    }
    Ok(())
}

thread_local! {
    static MISSING_TABLE: Box<InterruptDescriptorTable> = Box::new(InterruptDescriptorTable::new());
    static FULL_INCL: Box<InterruptDescriptorTable> = { let mut t = Box::new(InterruptDescriptorTable::new()); install_incl(&mut t, 0, 255); t };
    static FULL: Box<InterruptDescriptorTable> = { let mut t = Box::new(InterruptDescriptorTable::new()); install_full(&mut t); t };
}

fn ranges_case(lo: &u8, obs: &mut Obs) -> CaseResult {
    let lo = *lo;
    let reference = FULL_INCL.with(|t| t.clone());
    for hi in 0u16..256 {
        let hi = hi as u8;
        let mut idt = Box::new(InterruptDescriptorTable::new());
        install_incl(&mut idt, lo, hi);
        check_installed(&idt, |v| v >= lo as usize && v <= hi as usize, Some(&reference), &format!("set_general_handler!(.., {}..={})", lo, hi))?;
    }
    obs.add_evals(256);
    obs.nontrivial(&lo);
    if lo <= 31 {
        obs.label("cuts-through-reserved-vectors");
    }
    Ok(())
}

/// all (lo,hi) pairs through the exclusive form lo..hi, all nine (Bound,Bound) kind combinations and lo..
fn other_forms_exhaustive(lo: &u8, obs: &mut Obs) -> CaseResult {
    let lo = *lo;
    let l = lo as usize;
    let mk = |k: u8, x: u8| match k % 3 {
        0 => Bound::Included(x),
        1 => Bound::Excluded(x),
        _ => Bound::Unbounded,
    };
    let mut n = 0u64;
    for hi in 0u16..256 {
        let hi = hi as u8;
        let h = hi as usize;
        let mut idt = Box::new(InterruptDescriptorTable::new());
        install_excl(&mut idt, lo, hi);
        check_installed(&idt, |v| v >= l && v < h, None, &format!("set_general_handler!(.., {}..{})", lo, hi))?;
        n += 1;
        for k1 in 0..3u8 {
            for k2 in 0..3u8 {
                if (k1 == 2 && lo != 0) || (k2 == 2 && hi != 0) {
                    continue; // Unbounded ignores the value: evaluate once
                }
                let (bl, bh) = (mk(k1, lo), mk(k2, hi));
                let mut idt = Box::new(InterruptDescriptorTable::new());
                install_bounds(&mut idt, bl, bh);
                let inr = |v: usize| {
                    (match bl {
                        Bound::Included(x) => v >= x as usize,
                        Bound::Excluded(x) => v > x as usize,
                        Bound::Unbounded => true,
                    }) && (match bh {
                        Bound::Included(x) => v <= x as usize,
                        Bound::Excluded(x) => v < x as usize,
                        Bound::Unbounded => true,
                    })
                };
                check_installed(&idt, inr, None, &format!("set_general_handler!(.., ({:?}, {:?}))", bl, bh))?;
                n += 1;
            }
        }
    }
    let mut idt = Box::new(InterruptDescriptorTable::new());
    install_from(&mut idt, lo);
    check_installed(&idt, |v| v >= l, None, &format!("set_general_handler!(.., {}..)", lo))?;
    obs.add_evals(n + 1);
    obs.nontrivial(&lo);
    Ok(())
}

fn forms_case(c: &(u8, u8, u8, u8, u8), obs: &mut Obs) -> CaseResult {
    let (form, lo, hi, k1, k2) = *c;
    let mut idt = Box::new(InterruptDescriptorTable::new());
    let (l, h) = (lo as usize, hi as usize);
    match form % 5 {
        0 => {
            install_excl(&mut idt, lo, hi);
            check_installed(&idt, |v| v >= l && v < h, None, &format!("{}..{}", lo, hi))?;
        }
        1 => {
            install_full(&mut idt);
            check_installed(&idt, |_| true, None, "full table")?;
        }
        2 => {
            install_literal_14(&mut idt);
            check_installed(&idt, |v| v == 14, None, "literal 14")?;
            // three more literal vectors: the newest exception vectors (21 #CP with error code, 28 #HV
            // next to the reserved block 22-27) and the last vector
            for (f, k) in [(install_literal_28 as fn(&mut InterruptDescriptorTable), 28usize), (install_literal_21, 21), (install_literal_255, 255)] {
                let mut t = Box::new(InterruptDescriptorTable::new());
                f(&mut t);
                check_installed(&t, |v| v == k, None, &format!("literal {}", k))?;
            }
        }
        3 => {
            let mk = |k: u8, x: u8| match k % 3 {
                0 => Bound::Included(x),
                1 => Bound::Excluded(x),
                _ => Bound::Unbounded,
            };
            let (bl, bh) = (mk(k1, lo), mk(k2, hi));
            install_bounds(&mut idt, bl, bh);
            let inr = |v: usize| {
                (match bl {
                    Bound::Included(x) => v >= x as usize,
                    Bound::Excluded(x) => v > x as usize,
                    Bound::Unbounded => true,
                }) && (match bh {
                    Bound::Included(x) => v <= x as usize,
                    Bound::Excluded(x) => v < x as usize,
                    Bound::Unbounded => true,
                })
            };
            check_installed(&idt, inr, None, &format!("({:?},{:?})", bl, bh))?;
        }
        _ => {
            install_from(&mut idt, lo);
            check_installed(&idt, |v| v >= l, None, &format!("{}..", lo))?;
        }
    }
    obs.nontrivial(&(form % 5, lo, hi, if form % 5 == 3 { (k1 % 3, k2 % 3) } else { (0, 0) }));
    Ok(())
}

const FLAG_DOMAIN: u64 = (1 << 0) | (1 << 2) | (1 << 4) | (1 << 6) | (1 << 7) | (1 << 10) | (1 << 11) | (1 << 14) | (1 << 21);

/// vectors whose delivery terminated a forked child (found by the smoke sub-check); the in-process
/// delivery skips them so that the rest of the check can still run
static mut BAD_VECTORS: [bool; 256] = [false; 256];

/// One delivery per vector in a forked child process: a stub that kills the process (e.g. by panicking
/// inside the non-unwinding interrupt ABI) becomes a reported violation instead of a dead worker.
fn smoke_case(v: &u8, obs: &mut Obs) -> CaseResult {
    let v = *v;
    let case = (v, 0xfeed_0000_0000_0000u64 | v as u64, 8 * v as u32 + 8, 0x8c5u64, v & 1 == 0);
    let pid = unsafe { libc::fork() };
    ensure!(pid >= 0, "fork failed");
    if pid == 0 {
        let mut o = Obs::default();
        let r = delivery_case(&case, &mut o);
        unsafe { libc::_exit(if r.is_ok() { 0 } else { 3 }) };
    }
    let mut status = 0i32;
    unsafe { libc::waitpid(pid, &mut status, 0) };
    if libc::WIFSIGNALED(status) {
        unsafe { BAD_VECTORS[v as usize] = true };
        return Err(format!("delivering vector {} terminated the process with signal {} (the stub did not return to the interrupted code and did not reach the general handler's exit)", v, libc::WTERMSIG(status)));
    }
    if libc::WIFEXITED(status) && libc::WEXITSTATUS(status) == 3 {
        // an ordinary oracle failure: re-run in-process to obtain the message
        let mut o = Obs::default();
        return delivery_case(&case, &mut o);
    }
    ensure!(libc::WIFEXITED(status) && libc::WEXITSTATUS(status) == 0, "child for vector {} ended with status {:#x}", v, status);
    obs.nontrivial(&v);
    Ok(())
}

fn delivery_case(c: &(u8, u64, u32, u64, bool), obs: &mut Obs) -> CaseResult {
    let (v, err, rsp_off, flags, which_table) = *c;
    let v = v as usize;
    if unsafe { BAD_VECTORS[v] } {
        return Ok(());
    }
    let idt = if which_table { FULL.with(|t| t.clone()) } else { FULL_INCL.with(|t| t.clone()) };
    let e = raw(&idt)[v];
    if reserved(v) {
        ensure!(!present(&e), "reserved vector {} present", v);
        return Ok(());
    }
    ensure!(present(&e), "vector {} not present in a full installation", v);
    let handler = handler_of(&e);
    ensure!(is_code_address(handler), "vector {}: the handler address {:#x} decoded from the raw entry does not point into the program's code", v, handler);
    let (lo, hi) = deliver::scratch_stack();
    // interrupted stack pointer: anywhere (any alignment) in the upper quarter of the scratch stack
    let frame_rsp = hi - 64 - (rsp_off as u64 % ((hi - lo) / 4));
    // RFLAGS image: bit 1 (always one), IF (always one in ring 3) and generated user-visible bits
    let frame_flags = (flags & FLAG_DOMAIN) | 2 | (1 << 9);
    let (cs, ss) = deliver::native_cs_ss();
    unsafe { *core::ptr::addr_of_mut!(SEEN) = Seen::default() };
    umh::PANIC_ON_UNEXPECTED.store(false, std::sync::atomic::Ordering::Relaxed);
    let a: DeliverArgs = deliver::deliver(handler, if has_error_code(v) { Some(err) } else { None }, frame_rsp, frame_flags);
    umh::PANIC_ON_UNEXPECTED.store(true, std::sync::atomic::Ordering::Relaxed);
    let s = unsafe { *core::ptr::addr_of!(SEEN) };
    ensure_eq!(s.calls, 1u64, "vector {}: general handler calls", v);
    ensure_eq!(s.index as usize, v, "vector {}: index reported to the general handler", v);
    ensure_eq!(s.err, if has_error_code(v) { Some(err) } else { None }, "vector {}: error code reported", v);
    ensure_eq!(s.rip, deliver::vharness_deliver_resume as usize as u64, "vector {}: frame.instruction_pointer", v);
    ensure_eq!((s.cs, s.ss), (cs, ss), "vector {}: frame segments", v);
    ensure_eq!(s.flags, frame_flags, "vector {}: frame.cpu_flags", v);
    ensure_eq!(s.rsp, frame_rsp, "vector {}: frame.stack_pointer", v);
    // the frame the handler saw is the one the "CPU" pushed: 5 quadwords below the aligned stack pointer
    ensure_eq!(s.frame_addr, (frame_rsp & !0xf) - 40, "vector {}: address of the frame passed to the handler", v);
    if diverging(v) {
        ensure_eq!(a.resumed, 2u64, "vector {}: diverging handler must not return", v);
    } else {
        ensure_eq!(a.resumed, 1u64, "vector {}: execution must resume at the interrupted instruction", v);
        ensure_eq!(a.out_rsp, frame_rsp, "vector {}: stack pointer after return", v);
        let cmp = FLAG_DOMAIN & !(1 << 16);
        ensure_eq!(a.out_rflags & cmp, frame_flags & cmp, "vector {}: flags after return", v);
    }
    obs.label(if has_error_code(v) { "error-code-vector" } else { "plain-vector" });
    if has_error_code(v) || frame_rsp % 16 != 0 {
        obs.nontrivial(&(v, err, frame_rsp % 16, frame_flags, which_table));
    }
    Ok(())
}

extern "C" fn do_iretq(arg: u64) -> ! {
    let f = unsafe { &*(arg as *const InterruptStackFrameValue) };
    unsafe { f.iretq() }
}

fn iretq_case(c: &(u32, u64), obs: &mut Obs) -> CaseResult {
    let (rsp_off, flags) = *c;
    let (lo, hi) = deliver::scratch_stack();
    let rsp = hi - 64 - (rsp_off as u64 % ((hi - lo) / 4));
    let fl = (flags & FLAG_DOMAIN) | 2 | (1 << 9);
    let (cs, ss) = deliver::native_cs_ss();
    let f = InterruptStackFrameValue::new(
        VirtAddr::new(deliver::vharness_deliver_resume as usize as u64),
        SegmentSelector(cs),
        RFlags::from_bits_retain(fl),
        VirtAddr::new(rsp),
        SegmentSelector(ss),
    );
    // layout: five quadwords in hardware order
    let base = &f as *const _ as usize;
    ensure_eq!(core::mem::size_of::<InterruptStackFrameValue>(), 40usize, "size of the frame");
    ensure_eq!(core::ptr::addr_of!(f.instruction_pointer) as usize - base, 0usize, "offset of instruction_pointer");
    ensure_eq!(core::ptr::addr_of!(f.code_segment) as usize - base, 8usize, "offset of code_segment");
    ensure_eq!(core::ptr::addr_of!(f.cpu_flags) as usize - base, 16usize, "offset of cpu_flags");
    ensure_eq!(core::ptr::addr_of!(f.stack_pointer) as usize - base, 24usize, "offset of stack_pointer");
    ensure_eq!(core::ptr::addr_of!(f.stack_segment) as usize - base, 32usize, "offset of stack_segment");
    // InterruptStackFrame::new wraps the same value (Deref gives the fields back)
    let wrapped = InterruptStackFrame::new(f.instruction_pointer, f.code_segment, f.cpu_flags, f.stack_pointer, f.stack_segment);
    ensure_eq!((wrapped.instruction_pointer.as_u64(), wrapped.code_segment.0, wrapped.cpu_flags.bits(), wrapped.stack_pointer.as_u64(), wrapped.stack_segment.0), (f.instruction_pointer.as_u64(), cs, fl, rsp, ss), "InterruptStackFrame::new fields");
    ensure_eq!(core::mem::size_of::<InterruptStackFrame>(), 40usize, "size of InterruptStackFrame");
    umh::PANIC_ON_UNEXPECTED.store(false, std::sync::atomic::Ordering::Relaxed);
    let a = deliver::call_noreturn(do_iretq, &f as *const _ as u64);
    umh::PANIC_ON_UNEXPECTED.store(true, std::sync::atomic::Ordering::Relaxed);
    ensure_eq!(a.resumed, 1u64, "iretq must land on the frame's instruction pointer");
    ensure_eq!(a.out_rsp, rsp, "stack pointer after iretq");
    ensure_eq!(a.out_rflags & FLAG_DOMAIN, fl & FLAG_DOMAIN, "flags after iretq");
    if rsp % 16 != 0 {
        obs.nontrivial(&(rsp % 64, fl));
    }
    Ok(())
}

pub fn run(run: &mut Run) {
    umh::install();
    run.assume("a hardware-format frame is pushed by harness assembly exactly as the CPU does in 64-bit mode without stack switch (RSP aligned down to 16, SS, RSP, RFLAGS, CS, RIP[, error code]); CS/SS are the process's ring-3 selectors; RFLAGS image restricted to CF,PF,AF,ZF,SF,DF,OF,NT,ID (+IF=1): TF and AC would trap inside the harness, IOPL/VM/VIF/VIP/RF cannot be changed or read back in ring 3");
    run.assume("vectors 8 and 18 (diverging) are left through a stack switch from the general handler because their stubs panic in a non-unwinding ABI if the handler returns");
    let (w, ws) = (run.worker, run.workers);
    let los: Vec<u8> = (0u16..256).filter(|a| (*a as u32) % ws == w).map(|a| a as u8).collect();
    let keep = run.worker;
    run.worker = 0;
    run.exhaustive(
        "ranges",
        "all 65536 (lo,hi) pairs through set_general_handler!(idt, h, lo..=hi) on a fresh table (one case per lo, each worker a residue class): exactly the non-reserved vectors (reserved = 15, 22-27, 31) inside the range become present and equal the entry the same macro site installs for 0..=255; every other entry is byte-identical to Entry::missing()",
        los,
        ranges_case,
    );
    let los2: Vec<u8> = (0u16..256).filter(|a| (*a as u32) % ws == w).map(|a| a as u8).collect();
    run.exhaustive(
        "other_forms",
        "all 65536 (lo,hi) pairs through lo..hi, through (Bound,Bound) with all nine Included/Excluded/Unbounded combinations (empty and saturating corner cases such as 0..0 and (Excluded(255), Unbounded) included) and all 256 lo.. ; same oracle as 'ranges'; one case per lo, each worker a residue class",
        los2,
        other_forms_exhaustive,
    );
    run.worker = keep;
    let n = run.cases(20_000, 800_000);
    run.sub(
        "prepopulated",
        "installation of a generated range over a table that already holds up to 6 generated entries (handler address, gate type, DPL, IST) and a page-fault handler: vectors in the range are overwritten with the stub entry, every other entry keeps its bytes",
        n,
        (any::<u8>(), any::<u8>(), proptest::collection::vec((any::<u8>(), any::<u64>(), any::<u8>()), 0..6)),
        prepopulated_case,
    );
    let n = run.cases(3_000, 100_000);
    run.sub(
        "forms",
        "the other syntactic forms: lo..hi, no range (full table), literal vectors (14, 21, 28, 255), (Bound,Bound) with all 9 bound-kind combinations, lo.. ; same oracle",
        n,
        (0u8..5, any::<u8>(), any::<u8>(), 0u8..3, 0u8..3),
        forms_case,
    );
    run.exhaustive(
        "delivery_smoke",
        "one simulated delivery per vector (all 256) in a forked child process, same oracle as 'delivery': a stub that terminates the process instead of returning to the interrupted code is reported as a violation (and that vector is skipped by the in-process deliveries)",
        0u8..=255,
        smoke_case,
    );
    if run.worker != 0 && !matches!(run.mode, crate::engine::Mode::Replay { .. }) {
        // other workers only need to learn which vectors to skip (worker 0 reports them)
        for v in 0u8..=255 {
            let _ = smoke_case(&v, &mut Obs::default());
        }
    }
    let n = run.cases(600_000, 24_000_000);
    run.sub(
        "delivery",
        "all 256 vectors x error codes (edge-biased u64) x interrupted stack pointers of any alignment x RFLAGS images: a simulated interrupt is delivered to the handler address decoded from the raw entry of a fully installed table (both the no-range and the 0..=255 installation); oracle: general handler called exactly once with index = vector, frame fields = what was pushed, error_code = Some(e) exactly on vectors {8,10-14,17,21,29,30}; returning vectors resume at the interrupted RIP with RSP and arithmetic flags of the frame; non-trivial = error-code vector or unaligned RSP; distinct by (vector, error code, RSP mod 16, flags)",
        n,
        (prop_oneof![4 => any::<u8>(), 4 => proptest::sample::select(vec![8u8, 10, 11, 12, 13, 14, 17, 21, 29, 30]), 1 => 0u8..32], u64_edge(), any::<u32>(), any::<u64>(), any::<bool>()),
        delivery_case,
    );
    let n = run.cases(100_000, 4_000_000);
    run.sub(
        "iretq",
        "InterruptStackFrameValue::new(..).iretq() on generated stack pointers/flags: lands on the frame's RIP with its RSP and flags; field offsets 0,8,16,24,32 and size 40",
        n,
        (any::<u32>(), any::<u64>()),
        iretq_case,
    );
}
