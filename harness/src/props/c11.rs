//! C11 — flushes invalidate exactly what they are asked to (standalone flush operations and the
//! flush tokens; the "token names the changed page" half over mapper histories lives in the mapper
//! checks and is counted there under C11 as well).
use crate::engine::{outcome, CaseResult, Obs, Outcome, Run};
use crate::gen::*;
use crate::umh::{self, cpu, Op};
use crate::{ensure, ensure_eq};
use proptest::prelude::*;
use serde::{Deserialize, Serialize};
use x86_64::instructions::tlb::{self, InvPcidCommand, Invlpgb, Pcid};
use x86_64::structures::paging::mapper::{MapperFlush, MapperFlushAll};
use x86_64::structures::paging::page::PageRange;
use x86_64::structures::paging::{Page, PageSize, Size1GiB, Size2MiB, Size4KiB};
use x86_64::VirtAddr;

fn flush_case(c: &(u64, u8), obs: &mut Obs) -> CaseResult {
    let (a, sz) = *c;
    let cp = cpu();
    cp.reset();
    tlb::flush(VirtAddr::new(a));
    let log = cp.take_log();
    ensure!(log.len() == 1 && log[0].op == Op::Invlpg, "tlb::flush({:#x}) trapped {:x?}", a, log);
    ensure_eq!(log[0].a, a, "tlb::flush: effective address of invlpg");
    // tokens
    macro_rules! tok {
        ($S:ty) => {{
            let page = Page::<$S>::containing_address(VirtAddr::new(a));
            let t = MapperFlush::new(page);
            ensure_eq!(t.page(), page, "MapperFlush::page()");
            t.flush();
            let log = cp.take_log();
            ensure!(log.len() == 1 && log[0].op == Op::Invlpg, "MapperFlush::flush trapped {:x?}", log);
            ensure_eq!(log[0].a, page.start_address().as_u64(), "MapperFlush::flush must invalidate the page's start address (page of {:#x}, size {:#x})", a, <$S>::SIZE);
            MapperFlush::new(page).ignore();
            ensure!(cpu().log_len == 0, "ignore() must not flush");
        }};
    }
    match sz % 3 {
        0 => tok!(Size4KiB),
        1 => tok!(Size2MiB),
        _ => tok!(Size1GiB),
    }
    ensure!(cpu().unexpected == 0, "unexpected fault");
    if a & 0xfff != 0 || sz % 3 != 0 {
        obs.nontrivial(&(a, sz % 3));
    }
    Ok(())
}

fn flush_all_case(c: &(u64, bool), obs: &mut Obs) -> CaseResult {
    let (cr3, via_token) = *c;
    // CR3 holds bits 0..52 only (63 reads as zero, 52..63 are reserved-zero)
    let cr3 = cr3 & 0x000f_ffff_ffff_ffff;
    let cp = cpu();
    cp.reset();
    cp.set_cr(3, cr3);
    if FLUSHALL_KNOWN.load(std::sync::atomic::Ordering::Relaxed) && cr3 & 0xfe7 != 0 {
        obs.exclude("C11-flush_all-drops-cr3-low-bits");
        return Ok(());
    }
    if via_token {
        MapperFlushAll::new().flush_all();
    } else {
        tlb::flush_all();
    }
    let log = cp.take_log();
    let writes: Vec<u64> = log.iter().filter(|t| t.op == Op::MovToCr).map(|t| t.b).collect();
    ensure!(
        log.iter().all(|t| (t.op == Op::MovFromCr || t.op == Op::MovToCr) && t.a == 3),
        "flush_all touched something other than CR3: {:x?}",
        log
    );
    ensure!(log.first().map(|t| t.op) == Some(Op::MovFromCr), "flush_all must read CR3 first: {:x?}", log);
    ensure_eq!(writes, vec![cr3], "flush_all must reload CR3 with its current value {:#x}", cr3);
    MapperFlushAll::new().ignore();
    ensure!(cpu().log_len == 0, "ignore() must not flush");
    // "its *current* value": like a kernel that looks at the root, switches the address space and flushes
    // inside one function; the reload must use the value CR3 holds at the flush, not one read earlier (a CR3
    // read that the optimiser may merge with an earlier one would write the old root back)
    let cr3_b = (cr3 ^ 0x0000_0012_3456_7000 ^ ((cr3 >> 7) & 0xfff)) & 0x000f_ffff_ffff_ffff;
    let seen = switch_then_flush(cr3_b, via_token);
    let log = cp.take_log();
    let writes: Vec<u64> = log.iter().filter(|t| t.op == Op::MovToCr).map(|t| t.b).collect();
    ensure_eq!(seen, cr3, "Cr3::read_raw before the root switch (CR3 held {:#x})", cr3);
    ensure!(log.iter().all(|t| (t.op == Op::MovFromCr || t.op == Op::MovToCr) && t.a == 3), "root switch + flush_all touched something other than CR3: {:x?}", log);
    ensure_eq!(writes, vec![cr3_b, cr3_b], "read CR3 ({:#x}), switch the root to {:#x}, flush_all: the flush must reload CR3 with the value it holds then; values written to CR3", cr3, cr3_b);
    ensure_eq!(cp.cr[3], cr3_b, "CR3 after root switch + flush_all");
    obs.label("root-switch-before-flush_all");
    if cr3 & 0xfe7 != 0 {
        obs.label("cr3-with-pcid-bits");
        obs.nontrivial(&cr3);
    }
    Ok(())
}
#[inline(never)]
fn switch_then_flush(cr3_b: u64, via_token: bool) -> u64 {
    use x86_64::registers::control::Cr3;
    use x86_64::structures::paging::PhysFrame;
    let (f, low) = Cr3::read_raw();
    let seen = f.start_address().as_u64() | low as u64;
    unsafe { Cr3::write_raw(PhysFrame::containing_address(x86_64::PhysAddr::new(cr3_b & !0xfff)), (cr3_b & 0xfff) as u16) };
    if via_token {
        MapperFlushAll::new().flush_all();
    } else {
        tlb::flush_all();
    }
    seen
}

pub static FLUSHALL_KNOWN: std::sync::atomic::AtomicBool = std::sync::atomic::AtomicBool::new(false);

fn pcid_case(c: &(u8, u16, u64), obs: &mut Obs) -> CaseResult {
    let (kind, pcid, addr) = *c;
    let cp = cpu();
    cp.reset();
    // Pcid::new accepts exactly < 4096
    match (Pcid::new(pcid), pcid < 4096) {
        (Ok(p), true) => ensure_eq!(p.value(), pcid, "Pcid::value"),
        (Err(_), false) => {
            obs.label("pcid-rejected");
            return Ok(());
        }
        (r, _) => return Err(format!("Pcid::new({}) = {:?}", pcid, r)),
    }
    let p = Pcid::new(pcid).unwrap();
    let (cmd, want) = match kind % 4 {
        0 => (InvPcidCommand::Address(VirtAddr::new(addr), p), (0u64, pcid as u64, addr)),
        1 => (InvPcidCommand::Single(p), (1, pcid as u64, 0)),
        2 => (InvPcidCommand::All, (2, 0, 0)),
        _ => (InvPcidCommand::AllExceptGlobal, (3, 0, 0)),
    };
    unsafe { tlb::flush_pcid(cmd) };
    let log = cp.take_log();
    ensure!(log.len() == 1 && log[0].op == Op::Invpcid, "flush_pcid trapped {:x?}", log);
    ensure_eq!(log[0].a, want.0, "invpcid type operand (kind {})", kind % 4);
    ensure_eq!(log[0].b & 0xfff, want.1, "invpcid descriptor bits 0..12 (PCID)");
    ensure_eq!(log[0].b >> 12, 0u64, "invpcid descriptor bits 12..64 must be zero");
    ensure_eq!(log[0].c, want.2, "invpcid descriptor linear address");
    obs.nontrivial(&(kind % 4, pcid, if kind % 4 == 0 { addr } else { 0 }));
    Ok(())
}

// ------------------------------------------------------------------------------------------------
// broadcast builder
// ------------------------------------------------------------------------------------------------

#[derive(Debug, Clone, Serialize, Deserialize)]
pub struct Bcast {
    pub count_max: u16,
    pub nested_supported: bool,
    pub nasid: u32,
    pub huge: bool,
    /// None = no page range given
    pub range: Option<(u64, u64)>, // (start address, length in pages) -> end computed by stepping
    pub end_override: Option<u64>,
    pub pcid: Option<u16>,
    pub asid: Option<u16>,
    pub global: bool,
    pub final_only: bool,
    pub nested: bool,
    /// set the options on the builder before (true) or after (false) giving it the page range
    #[serde(default)]
    pub options_first: bool,
}

fn bcast() -> impl Strategy<Value = Bcast> {
    let max = prop_oneof![
        3 => Just(0u16), 2 => Just(1u16), 2 => Just(2u16), 1 => Just(7u16), 1 => Just(511u16), 1 => Just(u16::MAX), 2 => any::<u16>(), 2 => 0u16..16
    ];
    let start = prop_oneof![
        3 => canon_va(),
        // close below the end of the lower half
        4 => (0u64..1200).prop_map(|k| 0x0000_8000_0000_0000u64 - (k + 1) * 0x1000),
        2 => (0u64..600).prop_map(|k| 0x0000_8000_0000_0000u64 - (k + 1) * 0x20_0000),
        // close below the top
        2 => (0u64..1200).prop_map(|k| 0u64.wrapping_sub((k + 2) * 0x1000)),
        1 => (0u64..20).prop_map(|k| GAP_HI + k * 0x1000),
    ];
    let len = prop_oneof![2 => 0u64..4, 4 => 0u64..40, 3 => 0u64..700, 1 => 0u64..70000];
    (
        (max, any::<bool>(), prop_oneof![Just(0u32), Just(1u32), 1u32..70000, any::<u32>()], any::<bool>()),
        proptest::option::weighted(0.85, (start, len)),
        proptest::option::weighted(0.1, canon_va()),
        proptest::option::weighted(0.5, 0u16..4096),
        proptest::option::weighted(0.5, any::<u16>()),
        any::<bool>(),
        any::<bool>(),
        (any::<bool>(), any::<bool>()),
    )
        .prop_map(|((count_max, nested_supported, nasid, huge), range, end_override, pcid, asid, global, final_only, (nested, options_first))| Bcast {
            count_max,
            nested_supported,
            nasid,
            huge,
            range,
            end_override,
            pcid,
            asid,
            global,
            final_only,
            nested,
            options_first,
        })
}

fn pos(a: u64) -> u128 {
    (a & 0xffff_ffff_ffff) as u128
}

fn bcast_run<S: x86_64::structures::paging::page::NotGiantPageSize>(b: &Bcast, obs: &mut Obs) -> CaseResult {
    let cp = cpu();
    cp.reset();
    let sz = S::SIZE;
    let inv = Invlpgb::verif_new(b.count_max, b.nested_supported, b.nasid);
    ensure_eq!(inv.invlpgb_count_max(), b.count_max, "invlpgb_count_max()");
    ensure_eq!(inv.nasid(), b.nasid, "nasid()");
    ensure_eq!(inv.tlb_flush_nested(), b.nested_supported, "tlb_flush_nested()");
    // the page range as positions in the contiguous canonical space
    let mut range_pos: Option<(u128, u128)> = None;
    let mut page_range: Option<PageRange<S>> = None;
    if let Some((start, len)) = b.range {
        let start = start & !(sz - 1);
        // keep the number of requests bounded: at most ~2000 traps per case
        let per_req = b.count_max as u64 + 1;
        let len = len.min(per_req.saturating_mul(1500));
        let sp = pos(start);
        let mut ep = sp + len as u128 * sz as u128;
        if let Some(e) = b.end_override {
            // arbitrary end (also before the start => empty range)
            let e = pos(e & !(sz - 1));
            if e <= sp || (e - sp) / sz as u128 <= per_req as u128 * 1500 {
                ep = e;
            }
        }
        let last_page_pos = (1u128 << 48) - sz as u128;
        if ep > last_page_pos {
            ep = last_page_pos; // the exclusive end must itself be a page
        }
        let end = sign_extend48(ep as u64);
        let pr = Page::<S>::range(
            Page::containing_address(VirtAddr::new(start)),
            Page::containing_address(VirtAddr::new(end)),
        );
        page_range = Some(pr);
        range_pos = Some((sp, ep.max(sp)));
    }
    // build
    if page_range.is_none() {
        return bcast_no_range(b, &inv, obs);
    }
    let mut asid_ok = None;
    let mut nested = false;
    // the options may be set before or after the builder is given its page range
    macro_rules! set_options {
        ($builder:ident) => {{
            if let Some(p) = b.pcid {
                unsafe { $builder.pcid(Pcid::new(p).unwrap()) };
            }
            if let Some(a) = b.asid {
                let r = unsafe { $builder.asid(a) }.map(|_| ());
                let accept = (a as u32) < b.nasid;
                match (&r, accept) {
                    (Ok(()), true) => asid_ok = Some(a),
                    (Err(e), false) => {
                        ensure_eq!((e.asid, e.nasid), (a, b.nasid), "AsidOutOfRangeError fields");
                        obs.label("asid-rejected");
                    }
                    _ => return Err(format!("asid({}) with nasid {}: accepted={} but result {:?}", a, b.nasid, accept, r.is_ok())),
                }
            }
            if b.global {
                $builder.include_global();
            }
            if b.final_only {
                $builder.final_translation_only();
            }
        }};
    }
    macro_rules! set_nested {
        ($builder:ident) => {{
            if b.nested {
                let r = outcome(move || $builder.include_nested_translations());
                match (r, b.nested_supported) {
                    (Outcome::Ret(bb), true) => {
                        nested = true;
                        bb
                    }
                    (Outcome::Panic(_), false) => {
                        obs.label("nested-unsupported-panics");
                        obs.nontrivial(&("nested-unsupported", b.count_max));
                        return Ok(());
                    }
                    (Outcome::Ret(_), false) => return Err("include_nested_translations() without processor support must panic".into()),
                    (Outcome::Panic(m), true) => return Err(format!("include_nested_translations() panicked although supported: {}", m)),
                }
            } else {
                $builder
            }
        }};
    }
    let builder = if b.options_first {
        let mut pre = inv.build();
        set_options!(pre);
        let pre = set_nested!(pre);
        obs.label("options-before-pages");
        pre.pages(page_range.unwrap())
    } else {
        let mut post = inv.build().pages(page_range.unwrap());
        set_options!(post);
        set_nested!(post)
    };
    cp.clear_log();
    let r = outcome(|| builder.flush());
    if let Outcome::Panic(m) = r {
        return Err(format!("flush() panicked: {} ({:x?})", m, b));
    }
    ensure!(!cpu().log_overflow, "trap log overflow");
    let log = cp.take_log();
    let (sp, ep) = range_pos.unwrap();
    // decode every request per the AMD manual
    let mut covered: Vec<(u128, u128)> = vec![];
    for t in &log {
        ensure!(t.op == Op::Invlpgb, "flush() executed {:x?}", t);
        let (rax, ecx, edx) = (t.a, t.b, t.c);
        ensure!(rax & 1 != 0, "request without the valid-VA bit although a range was given: {:x?}", t);
        ensure_eq!(rax & 0xfc0, 0u64, "rAX bits 6..12 must be zero");
        ensure_eq!((rax >> 1) & 1, b.pcid.is_some() as u64, "rAX bit 1 (valid PCID)");
        ensure_eq!((rax >> 2) & 1, asid_ok.is_some() as u64, "rAX bit 2 (valid ASID)");
        ensure_eq!((rax >> 3) & 1, b.global as u64, "rAX bit 3 (include global)");
        ensure_eq!((rax >> 4) & 1, b.final_only as u64, "rAX bit 4 (final translation only)");
        ensure_eq!((rax >> 5) & 1, nested as u64, "rAX bit 5 (include nested)");
        ensure_eq!((edx >> 16) & 0xfff, b.pcid.unwrap_or(0) as u64, "EDX[27:16] PCID");
        ensure_eq!(edx & 0xffff, asid_ok.unwrap_or(0) as u64, "EDX[15:0] ASID");
        ensure_eq!(edx >> 28, 0u64, "EDX[31:28] must be zero");
        let cnt = ecx & 0xffff;
        ensure!(cnt <= b.count_max as u64, "request with ECX[15:0] = {} additional pages exceeds the processor maximum {}", cnt, b.count_max);
        ensure_eq!((ecx >> 31) & 1, (sz == 1 << 21) as u64, "ECX bit 31 (2 MiB stride)");
        ensure_eq!((ecx >> 16) & 0x7fff, 0u64, "ECX[30:16] must be zero");
        let va = rax & !0xfff;
        ensure!(is_canonical(va), "request VA {:#x} is not canonical", va);
        ensure_eq!(va % sz, 0u64, "request VA aligned to the stride");
        // the request covers [va, va + (cnt+1)*size): must not leave the half it starts in
        let lo = pos(va);
        let hi = lo + (cnt as u128 + 1) * sz as u128;
        let half_end = if lo < (1 << 47) { 1u128 << 47 } else { 1u128 << 48 };
        ensure!(
            hi <= half_end,
            "request at {:#x} with {} additional {:#x}-byte pages extends past {:#x}: it crosses into the non-canonical gap / past the top",
            va,
            cnt,
            sz,
            if lo < (1 << 47) { 0x0000_8000_0000_0000u64 } else { u64::MAX }
        );
        covered.push((lo, hi));
    }
    // union of the requests covers every page of the range
    covered.sort();
    let mut need = sp;
    for (lo, hi) in &covered {
        if *lo > need {
            break;
        }
        need = need.max(*hi);
    }
    ensure!(
        need >= ep,
        "pages from position {:#x} of the range [{:#x},{:#x}) (units: bytes in the contiguous canonical space) are not covered by any request; requests: {:x?}",
        need,
        sp,
        ep,
        &covered[..covered.len().min(8)]
    );
    if ep == sp {
        ensure!(log.is_empty(), "empty range must not issue requests: {:x?}", log);
    }
    inv.tlbsync();
    let l2 = cp.take_log();
    ensure!(l2.len() == 1 && l2[0].op == Op::Tlbsync, "tlbsync() executed {:x?}", l2);
    let crosses = sp < (1 << 47) && ep > (1 << 47);
    let touches_gap = ep == (1 << 47) && ep > sp;
    let touches_top = ep + sz as u128 >= (1 << 48) && ep > sp;
    if crosses {
        obs.label("range-crosses-gap");
    }
    if touches_gap {
        obs.label("range-ends-at-lower-half-end");
    }
    if touches_top {
        obs.label("range-reaches-top");
    }
    if log.len() > 1 {
        obs.label("multi-request");
    }
    obs.add_evals(log.len() as u64);
    if log.len() > 1 || crosses || touches_gap || touches_top || sz != 4096 {
        obs.nontrivial(&(sz, sp, ep, b.count_max, b.pcid, asid_ok, b.global, b.final_only, nested));
    }
    Ok(())
}

fn bcast_no_range(b: &Bcast, inv: &Invlpgb, obs: &mut Obs) -> CaseResult {
    let cp = cpu();
    let mut builder = inv.build();
    if let Some(p) = b.pcid {
        unsafe { builder.pcid(Pcid::new(p).unwrap()) };
    }
    let mut asid_ok = None;
    if let Some(a) = b.asid {
        if unsafe { builder.asid(a) }.is_ok() {
            ensure!((a as u32) < b.nasid, "asid {} accepted with nasid {}", a, b.nasid);
            asid_ok = Some(a);
        } else {
            ensure!((a as u32) >= b.nasid, "asid {} rejected with nasid {}", a, b.nasid);
        }
    }
    if b.global {
        builder.include_global();
    }
    if b.final_only {
        builder.final_translation_only();
    }
    cp.clear_log();
    builder.flush();
    let log = cp.take_log();
    ensure!(log.len() == 1 && log[0].op == Op::Invlpgb, "flush() without a range must issue exactly one request: {:x?}", log);
    let (rax, ecx, edx) = (log[0].a, log[0].b, log[0].c);
    ensure_eq!(rax & 1, 0u64, "valid-VA bit must be clear without a range");
    ensure_eq!(rax >> 12, 0u64, "no VA without a range");
    ensure_eq!(ecx, 0u64, "ECX without a range");
    ensure_eq!((rax >> 1) & 1, b.pcid.is_some() as u64, "rAX bit 1 (valid PCID)");
    ensure_eq!((rax >> 2) & 1, asid_ok.is_some() as u64, "rAX bit 2 (valid ASID)");
    ensure_eq!((rax >> 3) & 1, b.global as u64, "rAX bit 3");
    ensure_eq!((rax >> 4) & 1, b.final_only as u64, "rAX bit 4");
    ensure_eq!((edx >> 16) & 0xfff, b.pcid.unwrap_or(0) as u64, "EDX[27:16] PCID");
    ensure_eq!(edx & 0xffff, asid_ok.unwrap_or(0) as u64, "EDX[15:0] ASID");
    obs.label("no-range");
    obs.nontrivial(&("norange", b.pcid, asid_ok, b.global, b.final_only));
    Ok(())
}

fn bcast_case(b: &Bcast, obs: &mut Obs) -> CaseResult {
    if BCAST_KNOWN.load(std::sync::atomic::Ordering::Relaxed) {
        // known finding: a chunk that ends exactly at the lower-half end extends one page into the gap
        if let Some((start, len)) = b.range {
            let sz: u64 = if b.huge { 1 << 21 } else { 4096 };
            let sp = pos(start & !(sz - 1));
            let ep = match b.end_override {
                Some(e) => pos(e & !(sz - 1)),
                None => sp + len as u128 * sz as u128,
            };
            if sp < (1 << 47) && ep >= (1 << 47) {
                obs.exclude("C11-invlpgb-count-is-additional-pages");
                return Ok(());
            }
        }
    }
    let r = if b.huge { bcast_run::<Size2MiB>(b, obs) } else { bcast_run::<Size4KiB>(b, obs) };
    cpu().reset();
    r
}
pub static BCAST_KNOWN: std::sync::atomic::AtomicBool = std::sync::atomic::AtomicBool::new(false);

fn flush_all_reproduces() -> bool {
    let cp = cpu();
    cp.reset();
    cp.set_cr(3, 0x1234_5000 | 0x7);
    tlb::flush_all();
    let w: Vec<u64> = cp.take_log().iter().filter(|t| t.op == Op::MovToCr).map(|t| t.b).collect();
    cp.reset();
    w != vec![0x1234_5007]
}

fn bcast_reproduces() -> bool {
    let b = Bcast {
        count_max: 8,
        nested_supported: false,
        nasid: 0,
        huge: false,
        range: Some((0x0000_7fff_ffff_e000, 2)),
        end_override: None,
        pcid: None,
        asid: None,
        global: false,
        final_only: false,
        nested: false,
        options_first: false,
    };
    let mut o = Obs::default();
    let r = bcast_run::<Size4KiB>(&b, &mut o);
    cpu().reset();
    r.is_err()
}

pub fn run(run: &mut Run) {
    umh::install();
    run.assume("invlpg/invpcid/mov cr3 trap as #GP and invlpgb/tlbsync as #UD in ring 3; operands are decoded by the harness per the Intel SDM / AMD APM (invlpgb: rAX[63:12] VA, rAX[5:0] option bits, ECX[15:0] = number of ADDITIONAL pages, ECX[31] 2MiB stride, EDX[15:0] ASID, EDX[27:16] PCID)");
    run.assume("Invlpgb objects are built with hook H1 (Invlpgb::verif_new) because new() asserts CPL 0 and queries CPUID; CR3 contents are generated below 2^52 (bits 52..63 cannot be set in CR3)");
    let k1 = run.open_finding("C11-flush_all-drops-cr3-low-bits", flush_all_reproduces);
    FLUSHALL_KNOWN.store(k1, std::sync::atomic::Ordering::Relaxed);
    let k2 = run.open_finding("C11-invlpgb-count-is-additional-pages", bcast_reproduces);
    BCAST_KNOWN.store(k2, std::sync::atomic::Ordering::Relaxed);

    let n = run.cases(200_000, 8_000_000);
    run.sub(
        "flush",
        "tlb::flush(addr) and MapperFlush<4K/2M/1G>::new(page).flush()/page()/ignore() for canonical addresses; oracle: exactly one trapped invlpg whose effective address is the address / the page's start; non-trivial = unaligned address or huge page",
        n,
        (canon_va(), 0u8..3),
        flush_case,
    );
    let n = run.cases(200_000, 8_000_000);
    run.sub(
        "flush_all",
        "tlb::flush_all() / MapperFlushAll::flush_all() under generated CR3 contents (< 2^52, edge-biased, PCID bits frequent); oracle: mov r,cr3 then exactly one mov cr3,r writing the value read; then, inside one non-inlined function, Cr3::read_raw + Cr3::write_raw to another root/PCID + flush_all: the flush reloads the value CR3 holds at that moment (both writes equal the new value); non-trivial = CR3 with bits other than frame|PWT|PCD set",
        n,
        (prop_oneof![u64_edge(), (phys(), any::<u16>()).prop_map(|(p, l)| (p & !0xfff) | (l as u64 & 0xfff))], any::<bool>()),
        flush_all_case,
    );
    let n = run.cases(200_000, 8_000_000);
    run.sub(
        "flush_pcid",
        "flush_pcid for all four kinds x PCIDs 0..4096 (plus rejected values >= 4096) x canonical addresses; oracle: one invpcid with type = 0/1/2/3, descriptor[0] = PCID in bits 0..12 and zero above, descriptor[1] = address",
        n,
        (0u8..4, prop_oneof![8 => 0u16..4096, 1 => Just(4095u16), 1 => 4096u16..], canon_va()),
        pcid_case,
    );
    crate::props::c02::known_findings(run);
    let n = run.cases(12_000, 400_000);
    let max_ops = if run.tier == crate::engine::Tier::Quick { 32 } else { 96 };
    run.sub(
        "mapper_tokens",
        "the C01 call histories on all three mapper implementations: every successful map / unmap / update_flags returns a flush token whose page() is exactly the argument page (parent-entry changes return the flush-all token, whose flush is checked in flush_all)",
        n,
        crate::props::mapper::map_case([10, 2, 6, 5, 2, 1, 1, 1, 1], max_ops),
        |c, obs| crate::props::mapper::run_case(c, crate::props::mapper::T_C11, obs),
    );
    let n = run.cases(40_000, 1_600_000);
    run.sub(
        "broadcast",
        "InvlpgbFlushBuilder: processor maxima edge-biased over 0..=65535 (0,1,2 frequent), 4KiB/2MiB PageRanges (empty, short, multi-chunk, ending at / crossing the lower-half end, reaching the top, arbitrary end), every combination of pcid / asid (< and >= nasid) / include_global / final_translation_only / include_nested (with and without support), and the no-range form; oracle: each trapped invlpgb decoded per the AMD manual: option bits/PCID/ASID as requested, ECX[15:0] <= processor maximum, no request extends across the non-canonical gap or past the top, the union of [va, va+(cnt+1)*size) covers every page of the range, empty range => no request, no range => exactly one request without VA; non-trivial = multi-request flush, 2MiB pages, or a range touching the gap/top; distinct by (size, range, max, options)",
        n,
        bcast(),
        bcast_case,
    );
}
