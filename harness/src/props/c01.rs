//! C01 — page tables built by any mapper mean what an MMU would read from them.
use crate::engine::Run;
use crate::props::mapper::*;

pub fn run(run: &mut Run) {
    crate::umh::install();
    crate::props::c02::common_assumptions(run);
    crate::props::c02::known_findings(run);
    let n = run.cases(48_000, 1_500_000);
    let max_ops = if run.tier == crate::engine::Tier::Quick { 32 } else { 96 };
    run.sub(
        "histories",
        "histories of 0..32 (thorough: 0..96) calls over map_to / map_to_with_table_flags / identity_map / unmap / update_flags / set_flags_p4,p3,p2_entry / translate_page / translate / clean_up / clean_up_addr_range x 4KiB,2MiB,1GiB, operands from small structured pools (anchor pages with neighbours in the same and in neighbouring tables at every level, first/last page of each half; frames < 2^52; leaf flags incl. PRESENT; parent flags incl. PRESENT, no HUGE_PAGE), allocator order and pool per case, run on MappedPageTable (arbitrary frame->pointer map), OffsetPageTable (generated physical offset) and RecursivePageTable (generated recursive index, software MMU); oracle: reference model = independent hardware walk of the raw table memory = translate/translate_addr/translate_page on a probe set after every step, whole-table raw comparison, returned page/frame of successful calls; non-trivial = a huge-page map followed by an operation of another size inside it, or an unmap/clean-up followed by a re-map; distinct by (op kind, outcome class, relation) sequence",
        n,
        map_case([10, 2, 5, 3, 3, 2, 2, 1, 2], max_ops),
        |c, obs| run_case(c, T_C01 | T_C11, obs),
    );
}
