//! One module per property; `lookup` maps an id to its entry point.
use crate::engine::Run;

pub mod c03;

pub fn lookup(id: &str) -> Option<fn(&mut Run)> {
    Some(match id {
        "C03" => c03::run,
        _ => return None,
    })
}
