//! One module per property; `lookup` maps an id to its entry point.
use crate::engine::Run;

pub mod c01;
pub mod c02;
pub mod c03;
pub mod c04;
pub mod c05;
pub mod c06;
pub mod c07;
pub mod c08;
pub mod c09;
pub mod c10;
pub mod c11;
pub mod c20;
pub mod mapper;
pub mod c12;
pub mod c13;
pub mod c14;
pub mod c15;
pub mod c16;
pub mod c17;
pub mod c18;
pub mod c19;

pub fn lookup(id: &str) -> Option<fn(&mut Run)> {
    Some(match id {
        "C01" => c01::run,
        "C02" => c02::run,
        "C09" => c09::run,
        "C10" => c10::run,
        "C20" => c20::run,
        "C03" => c03::run,
        "C04" => c04::run,
        "C05" => c05::run,
        "C06" => c06::run,
        "C07" => c07::run,
        "C08" => c08::run,
        "C11" => c11::run,
        "C12" => c12::run,
        "C13" => c13::run,
        "C14" => c14::run,
        "C15" => c15::run,
        "C16" => c16::run,
        "C17" => c17::run,
        "C18" => c18::run,
        "C19" => c19::run,
        "SELFTEST" => selftest,
        _ => return None,
    })
}

fn selftest(_run: &mut Run) {
    crate::umh::install();
    println!("umh selftest passed");
}
