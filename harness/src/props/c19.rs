//! C19 — named constants and small codecs match the architecture manuals.
//!
//! The tables below are typed in from the Intel SDM (vol. 3 ch. 2, 4, 6, 18; vol. 1 ch. 10, 13) and the
//! AMD APM (vol. 2) — independently of the crate's source. The crate side is enumerated with
//! bitflags' `iter_names()`.
use crate::engine::{outcome, CaseResult, Obs, Outcome, Run};
use crate::gen::*;
use crate::{ensure, ensure_eq};
use proptest::prelude::*;
use std::convert::TryFrom;
use x86_64::instructions::tlb::Pcid;
use x86_64::registers::control::{Cr0Flags, Cr3Flags, Cr4Flags};
use x86_64::registers::debug::{
    BreakpointCondition, BreakpointSize, DebugAddressRegisterNumber, Dr6Flags, Dr7Flags, Dr7Value,
};
use x86_64::registers::model_specific::{
    ApicBase, ApicBaseFlags, CetFlags, Efer, EferFlags, FsBase, GsBase, KernelGsBase, LStar, Pat, PatMemoryType, SCet,
    SFMask, Star, UCet,
};
use x86_64::registers::mxcsr::MxCsr;
use x86_64::registers::rflags::RFlags;
use x86_64::registers::segmentation::SegmentSelector;
use x86_64::registers::xcontrol::XCr0Flags;
use x86_64::structures::gdt::DescriptorFlags;
use x86_64::structures::idt::{DescriptorTable, ExceptionVector, PageFaultErrorCode, SelectorErrorCode};
use x86_64::structures::paging::{PageSize, PageTableFlags, Size1GiB, Size2MiB, Size4KiB};
use x86_64::PrivilegeLevel;

const fn b(n: u32) -> u64 {
    1u64 << n
}

const PAGE_TABLE: &[(&str, u64)] = &[
    ("PRESENT", b(0)), ("WRITABLE", b(1)), ("USER_ACCESSIBLE", b(2)), ("WRITE_THROUGH", b(3)), ("NO_CACHE", b(4)),
    ("ACCESSED", b(5)), ("DIRTY", b(6)), ("HUGE_PAGE", b(7)), ("PAT_4KIB_PAGE", b(7)), ("GLOBAL", b(8)), ("BIT_9", b(9)),
    ("BIT_10", b(10)), ("BIT_11", b(11)), ("PAT_HUGE_PAGE", b(12)), ("BIT_52", b(52)), ("BIT_53", b(53)), ("BIT_54", b(54)),
    ("BIT_55", b(55)), ("BIT_56", b(56)), ("BIT_57", b(57)), ("BIT_58", b(58)), ("BIT_59", b(59)), ("BIT_60", b(60)),
    ("BIT_61", b(61)), ("BIT_62", b(62)), ("NO_EXECUTE", b(63)),
];
const DESCRIPTOR: &[(&str, u64)] = &[
    ("ACCESSED", b(40)), ("WRITABLE", b(41)), ("CONFORMING", b(42)), ("EXECUTABLE", b(43)), ("USER_SEGMENT", b(44)),
    ("DPL_RING_3", 3 << 45), ("PRESENT", b(47)), ("AVAILABLE", b(52)), ("LONG_MODE", b(53)), ("DEFAULT_SIZE", b(54)),
    ("GRANULARITY", b(55)), ("LIMIT_0_15", 0xFFFF), ("LIMIT_16_19", 0xF << 48), ("BASE_0_23", 0xFF_FFFF << 16),
    ("BASE_24_31", 0xFF << 56),
];
const RFLAGS: &[(&str, u64)] = &[
    ("ID", b(21)), ("VIRTUAL_INTERRUPT_PENDING", b(20)), ("VIRTUAL_INTERRUPT", b(19)), ("ALIGNMENT_CHECK", b(18)),
    ("VIRTUAL_8086_MODE", b(17)), ("RESUME_FLAG", b(16)), ("NESTED_TASK", b(14)), ("IOPL_HIGH", b(13)), ("IOPL_LOW", b(12)),
    ("OVERFLOW_FLAG", b(11)), ("DIRECTION_FLAG", b(10)), ("INTERRUPT_FLAG", b(9)), ("TRAP_FLAG", b(8)), ("SIGN_FLAG", b(7)),
    ("ZERO_FLAG", b(6)), ("AUXILIARY_CARRY_FLAG", b(4)), ("PARITY_FLAG", b(2)), ("CARRY_FLAG", b(0)),
];
const CR0: &[(&str, u64)] = &[
    ("PROTECTED_MODE_ENABLE", b(0)), ("MONITOR_COPROCESSOR", b(1)), ("EMULATE_COPROCESSOR", b(2)), ("TASK_SWITCHED", b(3)),
    ("EXTENSION_TYPE", b(4)), ("NUMERIC_ERROR", b(5)), ("WRITE_PROTECT", b(16)), ("ALIGNMENT_MASK", b(18)),
    ("NOT_WRITE_THROUGH", b(29)), ("CACHE_DISABLE", b(30)), ("PAGING", b(31)),
];
const CR3: &[(&str, u64)] = &[("PAGE_LEVEL_WRITETHROUGH", b(3)), ("PAGE_LEVEL_CACHE_DISABLE", b(4))];
const CR4: &[(&str, u64)] = &[
    ("VIRTUAL_8086_MODE_EXTENSIONS", b(0)), ("PROTECTED_MODE_VIRTUAL_INTERRUPTS", b(1)), ("TIMESTAMP_DISABLE", b(2)),
    ("DEBUGGING_EXTENSIONS", b(3)), ("PAGE_SIZE_EXTENSION", b(4)), ("PHYSICAL_ADDRESS_EXTENSION", b(5)),
    ("MACHINE_CHECK_EXCEPTION", b(6)), ("PAGE_GLOBAL", b(7)), ("PERFORMANCE_MONITOR_COUNTER", b(8)), ("OSFXSR", b(9)),
    ("OSXMMEXCPT_ENABLE", b(10)), ("USER_MODE_INSTRUCTION_PREVENTION", b(11)), ("L5_PAGING", b(12)),
    ("VIRTUAL_MACHINE_EXTENSIONS", b(13)), ("SAFER_MODE_EXTENSIONS", b(14)), ("FSGSBASE", b(16)), ("PCID", b(17)),
    ("OSXSAVE", b(18)), ("KEY_LOCKER", b(19)), ("SUPERVISOR_MODE_EXECUTION_PROTECTION", b(20)),
    ("SUPERVISOR_MODE_ACCESS_PREVENTION", b(21)), ("PROTECTION_KEY_USER", b(22)), ("CONTROL_FLOW_ENFORCEMENT", b(23)),
    ("PROTECTION_KEY_SUPERVISOR", b(24)),
];
const EFER: &[(&str, u64)] = &[
    ("SYSTEM_CALL_EXTENSIONS", b(0)), ("LONG_MODE_ENABLE", b(8)), ("LONG_MODE_ACTIVE", b(10)), ("NO_EXECUTE_ENABLE", b(11)),
    ("SECURE_VIRTUAL_MACHINE_ENABLE", b(12)), ("LONG_MODE_SEGMENT_LIMIT_ENABLE", b(13)), ("FAST_FXSAVE_FXRSTOR", b(14)),
    ("TRANSLATION_CACHE_EXTENSION", b(15)),
];
const XCR0: &[(&str, u64)] = &[
    ("X87", b(0)), ("SSE", b(1)), ("AVX", b(2)), ("BNDREG", b(3)), ("BNDCSR", b(4)), ("OPMASK", b(5)), ("ZMM_HI256", b(6)),
    ("HI16_ZMM", b(7)), ("MPK", b(9)), ("LWP", b(62)),
];
const MXCSR: &[(&str, u64)] = &[
    ("INVALID_OPERATION", b(0)), ("DENORMAL", b(1)), ("DIVIDE_BY_ZERO", b(2)), ("OVERFLOW", b(3)), ("UNDERFLOW", b(4)),
    ("PRECISION", b(5)), ("DENORMALS_ARE_ZEROS", b(6)), ("INVALID_OPERATION_MASK", b(7)), ("DENORMAL_MASK", b(8)),
    ("DIVIDE_BY_ZERO_MASK", b(9)), ("OVERFLOW_MASK", b(10)), ("UNDERFLOW_MASK", b(11)), ("PRECISION_MASK", b(12)),
    ("ROUNDING_CONTROL_NEGATIVE", b(13)), ("ROUNDING_CONTROL_POSITIVE", b(14)), ("ROUNDING_CONTROL_ZERO", 3 << 13),
    ("FLUSH_TO_ZERO", b(15)),
];
const DR6: &[(&str, u64)] = &[
    ("TRAP0", b(0)), ("TRAP1", b(1)), ("TRAP2", b(2)), ("TRAP3", b(3)), ("TRAP", 0xF), ("ACCESS_DETECTED", b(13)),
    ("STEP", b(14)), ("SWITCH", b(15)), ("RTM", b(16)),
];
const DR7: &[(&str, u64)] = &[
    ("LOCAL_BREAKPOINT_0_ENABLE", b(0)), ("GLOBAL_BREAKPOINT_0_ENABLE", b(1)), ("LOCAL_BREAKPOINT_1_ENABLE", b(2)),
    ("GLOBAL_BREAKPOINT_1_ENABLE", b(3)), ("LOCAL_BREAKPOINT_2_ENABLE", b(4)), ("GLOBAL_BREAKPOINT_2_ENABLE", b(5)),
    ("LOCAL_BREAKPOINT_3_ENABLE", b(6)), ("GLOBAL_BREAKPOINT_3_ENABLE", b(7)), ("LOCAL_EXACT_BREAKPOINT_ENABLE", b(8)),
    ("GLOBAL_EXACT_BREAKPOINT_ENABLE", b(9)), ("RESTRICTED_TRANSACTIONAL_MEMORY", b(11)), ("GENERAL_DETECT_ENABLE", b(13)),
];
const CET: &[(&str, u64)] = &[
    ("SS_ENABLE", b(0)), ("SS_WRITE_ENABLE", b(1)), ("IBT_ENABLE", b(2)), ("IBT_LEGACY_ENABLE", b(3)),
    ("IBT_NO_TRACK_ENABLE", b(4)), ("IBT_LEGACY_SUPPRESS_ENABLE", b(5)), ("IBT_SUPPRESS_ENABLE", b(10)), ("IBT_TRACKED", b(11)),
];
const APIC: &[(&str, u64)] = &[("BSP", b(8)), ("X2APIC_ENABLE", b(10)), ("LAPIC_ENABLE", b(11))];
const PFEC: &[(&str, u64)] = &[
    ("PROTECTION_VIOLATION", b(0)), ("CAUSED_BY_WRITE", b(1)), ("USER_MODE", b(2)), ("MALFORMED_TABLE", b(3)),
    ("INSTRUCTION_FETCH", b(4)), ("PROTECTION_KEY", b(5)), ("SHADOW_STACK", b(6)), ("SGX", b(15)), ("RMP", b(31)),
];

macro_rules! check_flags {
    ($obs:expr, $ty:ty, $tyname:expr, $table:expr) => {{
        let table: &[(&str, u64)] = $table;
        let mut seen = std::collections::BTreeSet::new();
        for (name, flag) in <$ty>::all().iter_names() {
            let bits = flag.bits() as u64;
            match table.iter().find(|(n, _)| *n == name) {
                Some((_, want)) => {
                    ensure_eq!(bits, *want, "{}::{} must denote {:#x}", $tyname, name, want);
                    seen.insert(name);
                    $obs.nontrivial(&($tyname, name));
                }
                None => $obs.label(format!("not-in-manual-table:{}::{}", $tyname, name)),
            }
        }
        for (n, _) in table {
            if !seen.contains(n) {
                $obs.label(format!("table-name-not-in-crate:{}::{}", $tyname, n));
            }
        }
        $obs.add_evals(table.len() as u64);
    }};
}

fn constants_case(_: &u8, obs: &mut Obs) -> CaseResult {
    check_flags!(obs, PageTableFlags, "PageTableFlags", PAGE_TABLE);
    check_flags!(obs, DescriptorFlags, "DescriptorFlags", DESCRIPTOR);
    check_flags!(obs, RFlags, "RFlags", RFLAGS);
    check_flags!(obs, Cr0Flags, "Cr0Flags", CR0);
    check_flags!(obs, Cr3Flags, "Cr3Flags", CR3);
    check_flags!(obs, Cr4Flags, "Cr4Flags", CR4);
    check_flags!(obs, EferFlags, "EferFlags", EFER);
    check_flags!(obs, XCr0Flags, "XCr0Flags", XCR0);
    check_flags!(obs, MxCsr, "MxCsr", MXCSR);
    check_flags!(obs, Dr6Flags, "Dr6Flags", DR6);
    check_flags!(obs, Dr7Flags, "Dr7Flags", DR7);
    check_flags!(obs, CetFlags, "CetFlags", CET);
    check_flags!(obs, ApicBaseFlags, "ApicBaseFlags", APIC);
    check_flags!(obs, PageFaultErrorCode, "PageFaultErrorCode", PFEC);
    // the aliases (iter_names only yields one name per constant for composite values in some versions)
    ensure_eq!(PageTableFlags::PAT_4KIB_PAGE.bits(), b(7), "PAT_4KIB_PAGE");
    ensure_eq!(PageTableFlags::HUGE_PAGE.bits(), b(7), "HUGE_PAGE");
    ensure_eq!(Dr6Flags::TRAP.bits(), 0xFu64, "Dr6Flags::TRAP");
    ensure_eq!(MxCsr::ROUNDING_CONTROL_ZERO.bits(), 3u32 << 13, "ROUNDING_CONTROL_ZERO");
    ensure_eq!(DescriptorFlags::DPL_RING_3.bits(), 3u64 << 45, "DPL_RING_3");
    // MSR numbers (Debug output of Msr is `Msr(<decimal>)`)
    let msr = |m: &x86_64::registers::model_specific::Msr| -> u32 {
        format!("{:?}", m).trim_start_matches("Msr(").trim_end_matches(')').parse().unwrap_or(u32::MAX)
    };
    for (name, got, want) in [
        ("Efer", msr(&Efer::MSR), 0xC000_0080u32),
        ("Star", msr(&Star::MSR), 0xC000_0081),
        ("LStar", msr(&LStar::MSR), 0xC000_0082),
        ("SFMask", msr(&SFMask::MSR), 0xC000_0084),
        ("FsBase", msr(&FsBase::MSR), 0xC000_0100),
        ("GsBase", msr(&GsBase::MSR), 0xC000_0101),
        ("KernelGsBase", msr(&KernelGsBase::MSR), 0xC000_0102),
        ("UCet", msr(&UCet::MSR), 0x6A0),
        ("SCet", msr(&SCet::MSR), 0x6A2),
        ("Pat", msr(&Pat::MSR), 0x277),
        ("ApicBase", msr(&ApicBase::MSR), 0x1B),
    ] {
        ensure_eq!(got, want, "{}::MSR number", name);
        obs.nontrivial(&("msr", name));
    }
    // exception vectors
    use ExceptionVector::*;
    for (v, n) in [
        (Division, 0u8), (Debug, 1), (NonMaskableInterrupt, 2), (Breakpoint, 3), (Overflow, 4), (BoundRange, 5),
        (InvalidOpcode, 6), (DeviceNotAvailable, 7), (Double, 8), (InvalidTss, 10), (SegmentNotPresent, 11), (Stack, 12),
        (GeneralProtection, 13), (Page, 14), (X87FloatingPoint, 16), (AlignmentCheck, 17), (MachineCheck, 18),
        (SimdFloatingPoint, 19), (Virtualization, 20), (ControlProtection, 21), (HypervisorInjection, 28),
        (VmmCommunication, 29), (Security, 30),
    ] {
        ensure_eq!(v as u8, n, "ExceptionVector::{:?}", v);
        ensure_eq!(ExceptionVector::try_from(n).ok(), Some(v), "ExceptionVector::try_from({})", n);
        obs.nontrivial(&("vector", n));
    }
    // page sizes
    ensure_eq!(Size4KiB::SIZE, 4096u64, "Size4KiB::SIZE");
    ensure_eq!(Size2MiB::SIZE, 2u64 * 1024 * 1024, "Size2MiB::SIZE");
    ensure_eq!(Size1GiB::SIZE, 1024u64 * 1024 * 1024, "Size1GiB::SIZE");
    // PAT memory types and reset value (SDM vol.3 table 12-10/12-12)
    for (t, n) in [
        (PatMemoryType::StrongUncacheable, 0u8), (PatMemoryType::WriteCombining, 1), (PatMemoryType::WriteThrough, 4),
        (PatMemoryType::WriteProtected, 5), (PatMemoryType::WriteBack, 6), (PatMemoryType::Uncacheable, 7),
    ] {
        ensure_eq!(t.bits(), n, "PatMemoryType::{:?}", t);
        obs.nontrivial(&("pat", n));
    }
    let reset = u64::from_le_bytes(Pat::DEFAULT.map(|t| t.bits()));
    ensure_eq!(reset, 0x0007_0406_0007_0406u64, "Pat::DEFAULT = reset value of IA32_PAT");
    ensure_eq!(MxCsr::default().bits(), 0x1F80u32, "MXCSR reset value");
    // privilege levels
    for (l, n) in [(PrivilegeLevel::Ring0, 0u8), (PrivilegeLevel::Ring1, 1), (PrivilegeLevel::Ring2, 2), (PrivilegeLevel::Ring3, 3)] {
        ensure_eq!(l as u8, n, "PrivilegeLevel::{:?}", l);
    }
    ensure_eq!(SegmentSelector::NULL.0, 0u16, "SegmentSelector::NULL");
    // Dr6/Dr7 per-register helpers
    for n in 0..4u8 {
        let r = DebugAddressRegisterNumber::new(n).unwrap();
        ensure_eq!(Dr6Flags::trap(r).bits(), b(n as u32), "Dr6Flags::trap({})", n);
        ensure_eq!(Dr7Flags::local_breakpoint_enable(r).bits(), b(2 * n as u32), "Dr7Flags::local_breakpoint_enable({})", n);
        ensure_eq!(Dr7Flags::global_breakpoint_enable(r).bits(), b(2 * n as u32 + 1), "Dr7Flags::global_breakpoint_enable({})", n);
    }
    Ok(())
}

fn u16_codec(v: &u16, obs: &mut Obs) -> CaseResult {
    let v = *v;
    // SegmentSelector: index (13 bits) << 3 | RPL, TI = 0
    let (idx, rpl) = (v >> 3, v & 3);
    let lvl = PrivilegeLevel::from_u16(rpl);
    let s = SegmentSelector::new(idx, lvl);
    ensure_eq!(s.0, (idx << 3) | rpl, "SegmentSelector::new({}, {:?})", idx, lvl);
    ensure_eq!(s.index(), idx, "index() round trip");
    ensure_eq!(s.rpl() as u16, rpl, "rpl() round trip");
    let raw = SegmentSelector(v);
    ensure_eq!(raw.index(), v >> 3, "index() of raw selector {:#x}", v);
    ensure_eq!(raw.rpl() as u16, v & 3, "rpl() of raw selector {:#x}", v);
    for r in 0..4u16 {
        let mut t = SegmentSelector(v);
        t.set_rpl(PrivilegeLevel::from_u16(r));
        ensure_eq!(t.0, (v & !3) | r, "set_rpl({}) on {:#x}", r, v);
    }
    // PrivilegeLevel::from_u16: panic iff > 3
    let p = outcome(|| PrivilegeLevel::from_u16(v));
    match (&p, v <= 3) {
        (Outcome::Ret(l), true) => ensure_eq!(*l as u16, v, "PrivilegeLevel::from_u16({})", v),
        (Outcome::Panic(_), false) => {}
        _ => return Err(format!("PrivilegeLevel::from_u16({}) = {:?}", v, p)),
    }
    // Pcid
    match (Pcid::new(v), v < 4096) {
        (Ok(p), true) => ensure_eq!(p.value(), v, "Pcid::new({})", v),
        (Err(_), false) => {}
        (r, _) => return Err(format!("Pcid::new({}) = {:?}", v, r)),
    }
    if v <= 4 || (4094..=4097).contains(&v) || v >= 0xfff8 {
        obs.nontrivial(&v);
    }
    Ok(())
}

fn u8_codec(v: &u8, obs: &mut Obs) -> CaseResult {
    let v = *v;
    match (DebugAddressRegisterNumber::new(v), v < 4) {
        (Some(r), true) => ensure_eq!(r.get(), v, "DebugAddressRegisterNumber::new({})", v),
        (None, false) => {}
        (r, _) => return Err(format!("DebugAddressRegisterNumber::new({}) = {:?}", v, r)),
    }
    let valid_vec = matches!(v, 0..=8 | 10..=14 | 16..=21 | 28..=30);
    match (ExceptionVector::try_from(v), valid_vec) {
        (Ok(e), true) => ensure_eq!(e as u8, v, "ExceptionVector::try_from({})", v),
        (Err(_), false) => {}
        (r, _) => return Err(format!("ExceptionVector::try_from({}) = {:?} (valid: {})", v, r.is_ok(), valid_vec)),
    }
    let valid_pat = matches!(v, 0 | 1 | 4 | 5 | 6 | 7);
    match (PatMemoryType::from_bits(v), valid_pat) {
        (Some(t), true) => ensure_eq!(t.bits(), v, "PatMemoryType::from_bits({})", v),
        (None, false) => {}
        (r, _) => return Err(format!("PatMemoryType::from_bits({}) = {:?}", v, r)),
    }
    if v < 32 {
        obs.nontrivial(&v);
    }
    Ok(())
}

const DR7_FLAG_BITS: u64 = 0x2bff; // bits 0-9, 11, 13
const DR7_VALID: u64 = DR7_FLAG_BITS | 0xffff_0000;

fn dr7_case(c: &(u64, u8, u8, u8, u64), obs: &mut Obs) -> CaseResult {
    let (bits, reg, cond, size, edge) = *c;
    // from_bits accepts exactly values without bits outside flags ∪ bits 16-31
    match (Dr7Value::from_bits(bits), bits & !DR7_VALID == 0) {
        (Some(v), true) => ensure_eq!(v.bits(), bits, "Dr7Value::from_bits({:#x})", bits),
        (None, false) => {}
        (r, _) => return Err(format!("Dr7Value::from_bits({:#x}) = {:?}", bits, r)),
    }
    ensure_eq!(Dr7Value::from_bits_truncate(bits).bits(), bits & DR7_VALID, "from_bits_truncate({:#x})", bits);
    ensure_eq!(Dr7Value::from(Dr7Flags::from_bits_truncate(bits)).bits(), bits & DR7_FLAG_BITS, "From<Dr7Flags>");
    let base = bits & DR7_VALID;
    let n = reg % 4;
    let r = DebugAddressRegisterNumber::new(n).unwrap();
    let conds = [BreakpointCondition::InstructionExecution, BreakpointCondition::DataWrites, BreakpointCondition::IoReadsWrites, BreakpointCondition::DataReadsWrites];
    let sizes = [BreakpointSize::Length1B, BreakpointSize::Length2B, BreakpointSize::Length8B, BreakpointSize::Length4B];
    let (cn, sn) = ((cond % 4) as u64, (size % 4) as u64);
    let mut v = Dr7Value::from_bits(base).unwrap();
    // reading the fields of an arbitrary valid value
    ensure_eq!(v.condition(r) as u64, (base >> (16 + 4 * n)) & 3, "condition({}) of {:#x}", n, base);
    ensure_eq!(v.size(r) as u64, (base >> (18 + 4 * n)) & 3, "size({}) of {:#x}", n, base);
    ensure_eq!(v.flags().bits(), base & DR7_FLAG_BITS, "flags() of {:#x}", base);
    // setting one field changes exactly its two bits
    v.set_condition(r, conds[cn as usize]);
    let want = (base & !(3 << (16 + 4 * n))) | (cn << (16 + 4 * n));
    ensure_eq!(v.bits(), want, "set_condition({}, {:?}) on {:#x}", n, conds[cn as usize], base);
    v.set_size(r, sizes[sn as usize]);
    let want2 = (want & !(3 << (18 + 4 * n))) | (sn << (18 + 4 * n));
    ensure_eq!(v.bits(), want2, "set_size({}, {:?})", n, sizes[sn as usize]);
    ensure_eq!(v.condition(r), conds[cn as usize], "condition read back");
    ensure_eq!(v.size(r), sizes[sn as usize], "size read back");
    // flag operations leave the fields alone
    let f = Dr7Flags::from_bits_truncate(edge);
    let mut w = v;
    w.insert_flags(f);
    ensure_eq!(w.bits(), want2 | f.bits(), "insert_flags");
    w.remove_flags(f);
    ensure_eq!(w.bits(), want2 & !f.bits(), "remove_flags");
    w.toggle_flags(f);
    ensure_eq!(w.bits(), (want2 & !f.bits()) ^ f.bits(), "toggle_flags");
    let mut w2 = v;
    w2.set_flags(f, false);
    ensure_eq!(w2.bits(), want2 & !f.bits(), "set_flags(false)");
    w2.set_flags(f, true);
    ensure_eq!(w2.bits(), want2 | f.bits(), "set_flags(true)");
    // encodings of the enums (SDM vol.3 18.2.4): R/W 00 exec, 01 write, 10 io, 11 read/write; LEN 00 1B, 01 2B, 10 8B, 11 4B
    ensure_eq!(conds.map(|c| c as u8), [0u8, 1, 2, 3], "BreakpointCondition encodings");
    ensure_eq!(sizes.map(|c| c as u8), [0u8, 1, 2, 3], "BreakpointSize encodings");
    for (bytes, want) in [(1usize, Some(0u8)), (2, Some(1)), (8, Some(2)), (4, Some(3)), (3, None), (0, None), (16, None)] {
        ensure_eq!(BreakpointSize::new(bytes).map(|s| s as u8), want, "BreakpointSize::new({})", bytes);
    }
    ensure_eq!(BreakpointSize::new(edge as usize).is_some(), matches!(edge, 1 | 2 | 4 | 8), "BreakpointSize::new({:#x})", edge);
    ensure_eq!(BreakpointCondition::from_bits(edge).map(|c| c as u64), if edge < 4 { Some(edge) } else { None }, "BreakpointCondition::from_bits({:#x})", edge);
    ensure_eq!(BreakpointSize::from_bits(edge).map(|c| c as u64), if edge < 4 { Some(edge) } else { None }, "BreakpointSize::from_bits({:#x})", edge);
    obs.nontrivial(&(n, cn, sn, base & DR7_FLAG_BITS));
    Ok(())
}

fn selector_error_case(v: &u64, obs: &mut Obs) -> CaseResult {
    let v = *v;
    match (SelectorErrorCode::new(v), v <= 0xffff) {
        (Some(c), true) => {
            ensure_eq!(c.external(), v & 1 != 0, "external()");
            let t = match (v >> 1) & 3 {
                0 => DescriptorTable::Gdt,
                1 | 3 => DescriptorTable::Idt,
                _ => DescriptorTable::Ldt,
            };
            ensure_eq!(c.descriptor_table(), t, "descriptor_table() of {:#x}", v);
            ensure_eq!(c.index(), (v >> 3) & 0x1fff, "index() of {:#x}", v);
            ensure_eq!(c.is_null(), v == 0, "is_null()");
        }
        (None, false) => {}
        (r, _) => return Err(format!("SelectorErrorCode::new({:#x}) = {:?}", v, r)),
    }
    let t = SelectorErrorCode::new_truncate(v);
    ensure_eq!(t.index(), (v >> 3) & 0x1fff, "new_truncate index");
    ensure_eq!(t.external(), v & 1 != 0, "new_truncate external");
    if v.wrapping_sub(0xfff0) < 0x20 || v < 16 {
        obs.nontrivial(&v);
    }
    Ok(())
}

pub fn run(run: &mut Run) {
    run.exhaustive(
        "constants",
        "every named constant of the 14 bitflags types (enumerated with iter_names()), the 11 MSR numbers, 23 exception vectors, page sizes, PAT memory types and reset value, MXCSR reset value, privilege levels, per-register DR6/DR7 helpers, against a table typed in from the manuals; a crate constant without a table row is reported as a label, not as a violation",
        0u8..1,
        constants_case,
    );
    run.exhaustive(
        "u16_codecs",
        "all 65536 u16: SegmentSelector::new(index, rpl)/index()/rpl()/set_rpl, PrivilegeLevel::from_u16 (panic iff > 3), Pcid::new (accept iff < 4096)",
        0u16..=u16::MAX,
        u16_codec,
    );
    run.exhaustive(
        "u8_codecs",
        "all 256 u8: DebugAddressRegisterNumber::new, ExceptionVector::try_from, PatMemoryType::from_bits accept exactly the architectural encodings and round-trip",
        0u8..=u8::MAX,
        u8_codec,
    );
    let n = run.cases(300_000, 12_000_000);
    run.sub(
        "dr7",
        "Dr7Value: from_bits accepts exactly values inside flags ∪ bits 16-31; for all 4 registers x 4 conditions x 4 sizes x generated flag subsets / field contents: setting one field changes exactly its two bits (16+4n / 18+4n) and reads back, flag operations leave the fields alone; BreakpointCondition/Size::from_bits and BreakpointSize::new on edge-biased u64",
        n,
        (prop_oneof![any::<u64>().prop_map(|x| x & DR7_VALID), u64_edge(), any::<u64>()], 0u8..4, 0u8..4, 0u8..4, prop_oneof![0u64..10, u64_edge()]),
        dr7_case,
    );
    let n = run.cases(200_000, 8_000_000);
    run.sub(
        "selector_error_code",
        "SelectorErrorCode::new accepts exactly <= 0xFFFF; external = bit 0, table = bits 1-2, index = bits 3-15; non-trivial = adjacent to the accept/reject boundary",
        n,
        prop_oneof![0u64..0x10000, u64_edge(), (0u64..64).prop_map(|k| 0xffe0 + k)],
        selector_error_case,
    );
}
