//! C18 — port objects perform exactly one access of their width on their port.
use crate::engine::{CaseResult, Obs, Run};
use crate::umh::{self, cpu, Op};
use crate::{ensure, ensure_eq};
use proptest::prelude::*;
use x86_64::instructions::port::{Port, PortReadOnly, PortWriteOnly};

fn mask(width: u64) -> u64 {
    match width {
        8 => 0xff,
        16 => 0xffff,
        _ => 0xffff_ffff,
    }
}

fn expect_one(what: &str, op: Op, width: u64, port: u16, value: u64) -> CaseResult {
    let log = cpu().take_log();
    ensure!(log.len() == 1, "{}: expected exactly one trapped instruction, got {:x?}", what, log);
    let t = log[0];
    ensure!(t.op == op, "{}: expected {:?} (DX form), trapped {:x?}", what, op, t);
    ensure_eq!(t.c, width, "{}: access width in bits ({:x?})", what, t);
    ensure_eq!(t.a, port as u64, "{}: port number in DX ({:x?})", what, t);
    ensure_eq!(t.b, value & mask(width), "{}: value transferred ({:x?})", what, t);
    Ok(())
}

macro_rules! rw_case {
    ($T:ty, $W:expr, $kind:expr, $port:expr, $val:expr, $dev:expr, $use_clone:expr, $other:expr) => {{
        let port: u16 = $port;
        let c = cpu();
        match $kind {
            0 => {
                let mut p: Port<$T> = Port::new(port);
                // the clone is made either by clone() or by clone_from() into an object of another port
                let mut q = if $other & 1 == 1 {
                    let mut t: Port<$T> = Port::new($other);
                    t.clone_from(&p);
                    t
                } else {
                    p.clone()
                };
                ensure!(q == p, "a clone (clone / clone_from over port {:#x}) of the object for port {:#x} must compare equal to it", $other, port);
                let target = if $use_clone { &mut q } else { &mut p };
                c.clear_log();
                unsafe { target.write($val as $T) };
                expect_one(concat!("Port<", stringify!($T), ">::write"), Op::Out, $W, port, $val as u64)?;
                c.push_in($dev);
                let r = unsafe { target.read() };
                expect_one(concat!("Port<", stringify!($T), ">::read"), Op::In, $W, port, $dev)?;
                ensure_eq!(r as u64, $dev & mask($W), "Port<{}>::read return value for device reply {:#x}", stringify!($T), $dev);
                // every read is a device access of its own: two reads in a row and a read whose value is dropped
                c.push_in(!$dev);
                c.push_in($dev ^ 0x5a5a_5a5a);
                let r1 = unsafe { target.read() };
                let r2 = unsafe { target.read() };
                let log = cpu().take_log();
                ensure!(log.len() == 2 && log.iter().all(|t| t.op == Op::In && t.a == port as u64), "two consecutive Port::read calls must execute two port reads, trapped {:x?}", log);
                ensure_eq!((r1 as u64, r2 as u64), (!$dev & mask($W), ($dev ^ 0x5a5a_5a5a) & mask($W)), "values of two consecutive reads");
                c.push_in(1);
                let _ = unsafe { target.read() };
                let log = cpu().take_log();
                ensure!(log.len() == 1 && log[0].op == Op::In, "a read whose value is discarded must still access the port, trapped {:x?}", log);
            }
            1 => {
                let mut p: PortReadOnly<$T> = PortReadOnly::new(port);
                // the clone is made either by clone() or by clone_from() into an object of another port
                let mut q = if $other & 1 == 1 {
                    let mut t: PortReadOnly<$T> = PortReadOnly::new($other);
                    t.clone_from(&p);
                    t
                } else {
                    p.clone()
                };
                ensure!(q == p, "a clone (clone / clone_from over port {:#x}) of the object for port {:#x} must compare equal to it", $other, port);
                let target = if $use_clone { &mut q } else { &mut p };
                c.clear_log();
                c.push_in($dev);
                let r = unsafe { target.read() };
                expect_one(concat!("PortReadOnly<", stringify!($T), ">::read"), Op::In, $W, port, $dev)?;
                ensure_eq!(r as u64, $dev & mask($W), "PortReadOnly<{}>::read return value", stringify!($T));
                c.push_in(!$dev);
                c.push_in($dev ^ 0x5a5a_5a5a);
                let r1 = unsafe { target.read() };
                let r2 = unsafe { target.read() };
                let log = cpu().take_log();
                ensure!(log.len() == 2 && log.iter().all(|t| t.op == Op::In && t.a == port as u64), "two consecutive PortReadOnly::read calls must execute two port reads, trapped {:x?}", log);
                ensure_eq!((r1 as u64, r2 as u64), (!$dev & mask($W), ($dev ^ 0x5a5a_5a5a) & mask($W)), "values of two consecutive reads");
            }
            _ => {
                let mut p: PortWriteOnly<$T> = PortWriteOnly::new(port);
                // the clone is made either by clone() or by clone_from() into an object of another port
                let mut q = if $other & 1 == 1 {
                    let mut t: PortWriteOnly<$T> = PortWriteOnly::new($other);
                    t.clone_from(&p);
                    t
                } else {
                    p.clone()
                };
                ensure!(q == p, "a clone (clone / clone_from over port {:#x}) of the object for port {:#x} must compare equal to it", $other, port);
                let target = if $use_clone { &mut q } else { &mut p };
                c.clear_log();
                unsafe { target.write($val as $T) };
                expect_one(concat!("PortWriteOnly<", stringify!($T), ">::write"), Op::Out, $W, port, $val as u64)?;
                unsafe { target.write($val as $T) };
                unsafe { target.write($val as $T) };
                let log = cpu().take_log();
                ensure!(log.len() == 2 && log.iter().all(|t| t.op == Op::Out && t.a == port as u64 && t.b == ($val as u64) & mask($W)), "two identical consecutive writes must both reach the port, trapped {:x?}", log);
            }
        }
    }};
}

macro_rules! eq_case {
    ($T:ty, $a:expr, $b:expr) => {{
        let (a, b): (u16, u16) = ($a, $b);
        ensure_eq!(Port::<$T>::new(a) == Port::<$T>::new(b), a == b, "Port == for ports {:#x} {:#x}", a, b);
        ensure_eq!(Port::<$T>::new(a) != Port::<$T>::new(b), a != b, "Port != for ports {:#x} {:#x}", a, b);
        ensure_eq!(PortReadOnly::<$T>::new(a) != PortReadOnly::<$T>::new(b), a != b, "PortReadOnly != for ports {:#x} {:#x}", a, b);
        ensure_eq!(PortWriteOnly::<$T>::new(a) != PortWriteOnly::<$T>::new(b), a != b, "PortWriteOnly != for ports {:#x} {:#x}", a, b);
        ensure_eq!(PortReadOnly::<$T>::new(a) == PortReadOnly::<$T>::new(b), a == b, "PortReadOnly == for ports {:#x} {:#x}", a, b);
        ensure_eq!(PortWriteOnly::<$T>::new(a) == PortWriteOnly::<$T>::new(b), a == b, "PortWriteOnly == for ports {:#x} {:#x}", a, b);
        ensure!(Port::<$T>::new(a).clone() == Port::<$T>::new(a), "clone compares equal");
    }};
}

type Case = (u8, u8, u16, u32, u64, bool, u16);

fn one(c: &Case, obs: &mut Obs) -> CaseResult {
    let (w, kind, port, val, dev, use_clone, other) = *c;
    cpu().reset();
    match w % 3 {
        0 => {
            rw_case!(u8, 8, kind % 3, port, val, dev, use_clone, other);
            eq_case!(u8, port, other);
        }
        1 => {
            rw_case!(u16, 16, kind % 3, port, val, dev, use_clone, other);
            eq_case!(u16, port, other);
        }
        _ => {
            rw_case!(u32, 32, kind % 3, port, val, dev, use_clone, other);
            eq_case!(u32, port, other);
        }
    }
    ensure!(cpu().unexpected == 0, "unexpected faults");
    let width = [8u64, 16, 32][(w % 3) as usize];
    let top = 1u64 << (width - 1);
    obs.label(format!("w{}-k{}", width, kind % 3));
    if port >= 256 && ((val as u64) & top != 0 || dev & top != 0) {
        obs.nontrivial(&(w % 3, kind % 3, port, val as u64 & mask(width), dev & mask(width), use_clone));
    }
    Ok(())
}

fn port_gen() -> impl Strategy<Value = u16> {
    prop_oneof![
        2 => any::<u16>(),
        1 => prop_oneof![Just(0u16), Just(0xffu16), Just(0x100u16), Just(0x3f8u16), Just(0xcf8u16), Just(0xffffu16), Just(0x8000u16)],
        1 => 0u16..256,
    ]
}

pub fn run(run: &mut Run) {
    umh::install();
    run.assume("in/out executed in ring 3 raise #GP; the trap handler's decoder (written from the SDM opcode map: EC/ED/EE/EF, 66 prefix = 16 bit; E4-E7 immediate and 6C-6F string forms are reported as BadIo) and device model are trusted");
    let n = run.cases(300_000, 0);
    let tier_thorough = run.tier == crate::engine::Tier::Thorough;
    if !tier_thorough {
        run.sub(
            "access",
            "(width 8/16/32, access kind Port/PortReadOnly/PortWriteOnly, port number edge-biased+uniform over all 65536, value, device reply with junk above the width, via-clone flag - the clone made by clone() or by clone_from() into an object of the second port -, second port for ==); the real in/out instruction is executed and trapped; oracle: exactly one trapped instruction, DX form of that width, DX = constructor port, AL/AX/EAX = value, returned value = device value of that width, == iff equal port numbers; non-trivial = port >= 256 (not encodable as immediate) and top bit of the width set in the value or reply; distinct by (width,kind,port,value,reply,clone)",
            n,
            (0u8..3, 0u8..3, port_gen(), prop_oneof![any::<u32>(), Just(u32::MAX), Just(0x8000_8080u32)], any::<u64>(), any::<bool>(), port_gen()),
            one,
        );
    } else {
        // thorough: all 65536 ports exhaustively per width and access kind, split across workers
        let (w, ws) = (run.worker as u32, run.workers as u32);
        let items = (0u32..65536 * 9).filter(move |i| i % ws == w).map(|i| {
            let port = (i / 9) as u16;
            let k = (i % 9) as u8;
            let h = crate::engine::hash_of(&i);
            (k / 3, k % 3, port, (h >> 7) as u32 | 0x8000_8080, h | 0x8000_0000_8000_8080, h & 1 == 0, port ^ ((h >> 40) as u16 & 1))
        });
        let worker = run.worker;
        run.worker = 0; // exhaustive() runs on worker 0 only; here every worker owns a slice
        run.exhaustive(
            "access_all_ports",
            "all 65536 port numbers x 3 widths x 3 access kinds (each worker one residue class), values/replies derived from a hash with the top bit of every width set; same oracle as 'access'",
            items,
            one,
        );
        run.worker = worker;
    }
}
