//! Shared machinery of the mapper properties C01, C02, C09, C10 (and the mapper halves of C11, C20):
//! generated call histories run through the three mapper implementations over simulated physical
//! memory, compared with the reference model, the independent hardware walker and each other.

use crate::engine::{outcome, CaseResult, Obs, Outcome};
use crate::gen::*;
use crate::model::{self, Entry, Model, State, Table, HUGE, P, W};
use crate::simmem::{self, mem, Access, ADDR_MASK, WINDOW_BASE, WINDOW_SIZE};
use crate::umh::{self, cpu};
use proptest::prelude::*;
use serde::{Deserialize, Serialize};
use std::collections::{BTreeMap, BTreeSet, VecDeque};
use x86_64::structures::paging::mapper::{
    CleanUp, FlagUpdateError, MapToError, MappedFrame, MappedPageTable, Mapper, MapperFlush, OffsetPageTable,
    PageTableFrameMapping, RecursivePageTable, Translate, TranslateError, TranslateResult, UnmapError,
};
use x86_64::structures::paging::{
    FrameAllocator, FrameDeallocator, Page, PageSize, PageTable, PageTableFlags, PhysFrame, Size1GiB, Size2MiB, Size4KiB,
};
use x86_64::{PhysAddr, VirtAddr};

// oracle categories
pub const T_C01: u32 = 1;
pub const T_C02: u32 = 2;
pub const T_C09: u32 = 4;
pub const T_C10: u32 = 8;
pub const T_C11: u32 = 16;
pub const T_C20: u32 = 32;
/// marks failures of oracles that do not depend on the reference model (only on allocator truth and
/// on the junk/zero pre-fill); the only ones reported once a history continues in degraded mode
pub const T_ROBUST: u32 = 1 << 31;

pub fn lowest(t: u32) -> u32 {
    t & t.wrapping_neg()
}

pub fn tag_name(t: u32) -> &'static str {
    match t {
        T_C01 => "C01",
        T_C02 => "C02",
        T_C09 => "C09",
        T_C10 => "C10",
        T_C11 => "C11",
        T_C20 => "C20",
        _ => "?",
    }
}

/// known findings that are switched on (exclusion by construction), set by the property entry points
#[derive(Default, Clone, Copy)]
pub struct Known {
    pub pat_huge: bool,
}
pub static mut KNOWN: Known = Known { pat_huge: false };
thread_local! {
    /// how often the open PAT finding made the generator drop bit 12 from huge leaf flags
    pub static EXCLUDED_PAT: std::cell::Cell<u64> = std::cell::Cell::new(0);
}
fn known() -> Known {
    unsafe { *core::ptr::addr_of!(KNOWN) }
}

// ------------------------------------------------------------------------------------------------
// case
// ------------------------------------------------------------------------------------------------

#[derive(Debug, Clone, Serialize, Deserialize)]
pub enum MOp {
    /// size, page, frame, leaf flags, explicit parent flags (None = map_to), failure schedule
    Map { sz: u8, page: u16, frame: u16, flags: u16, pflags: Option<u16>, fail: u8 },
    IdentityMap { sz: u8, frame: u16, flags: u16, fail: u8 },
    Unmap { sz: u8, page: u16 },
    UpdateFlags { sz: u8, page: u16, flags: u16 },
    /// table level 4/3/2, size of the page argument, page, parent flags
    SetFlagsP { t: u8, sz: u8, page: u16, pflags: u16 },
    TranslatePage { sz: u8, page: u16 },
    Translate { page: u16, off: u32 },
    CleanUp,
    CleanUpRange { a: u16, b: u16, mode: u8 },
}

#[derive(Debug, Clone, Serialize, Deserialize)]
pub struct MapCase {
    /// window base P0 selector, recursive index selector, CR3 low bits, level-4 frame selector
    pub p0: u64,
    pub rec: u16,
    pub cr3_low: u16,
    /// anchors of the page pool: (p4, p3, p2, p1)
    pub anchors: Vec<(u16, u16, u16, u16)>,
    pub frames: Vec<u64>,
    pub flag_sets: Vec<u64>,
    pub pflag_sets: Vec<u64>,
    /// allocator pool: window-relative page numbers
    pub alloc: Vec<u32>,
    pub ops: Vec<MOp>,
}

pub const LEAF_FLAG_BITS: u64 = 0x0ffe | (0x7ff << 52) | (1 << 63); // W U PWT PCD A D PAT(4KiB only; bit 7) G b9-11, 52-62, NX (PRESENT added)
pub const PARENT_FLAG_BITS: u64 = 0x0e7e | (0x7ff << 52) | (1 << 63); // no bit 7 (HUGE), no bit 8

fn flag_bits(domain: u64) -> impl Strategy<Value = u64> {
    prop_oneof![
        3 => Just(0u64),
        3 => Just(W),
        2 => Just(W | 4),
        2 => Just(4u64),
        4 => any::<u64>().prop_map(move |x| x & domain),
        2 => (any::<u64>(), any::<u64>()).prop_map(move |(a, b)| a & b & domain),
    ]
}

pub fn usable_rec(sel: u16) -> u16 {
    // recursive indices that a Linux process can host: [1,31] ∪ [65,160]
    let n = sel as usize % (31 + 96);
    if n < 31 {
        1 + n as u16
    } else {
        65 + (n - 31) as u16
    }
}

pub fn mop(weights: [u32; 9]) -> impl Strategy<Value = MOp> {
    let fail = prop_oneof![12 => Just(0u8), 1 => Just(1u8), 1 => Just(2u8), 1 => Just(3u8), 1 => Just(4u8)];
    prop_oneof![
        weights[0] => (0u8..3, any::<u16>(), any::<u16>(), any::<u16>(), proptest::option::weighted(0.4, any::<u16>()), fail.clone())
            .prop_map(|(sz, page, frame, flags, pflags, fail)| MOp::Map { sz, page, frame, flags, pflags, fail }),
        weights[1] => (0u8..3, any::<u16>(), any::<u16>(), fail).prop_map(|(sz, frame, flags, fail)| MOp::IdentityMap { sz, frame, flags, fail }),
        weights[2] => (0u8..3, any::<u16>()).prop_map(|(sz, page)| MOp::Unmap { sz, page }),
        weights[3] => (0u8..3, any::<u16>(), any::<u16>()).prop_map(|(sz, page, flags)| MOp::UpdateFlags { sz, page, flags }),
        weights[4] => (2u8..5, 0u8..3, any::<u16>(), any::<u16>()).prop_map(|(t, sz, page, pflags)| MOp::SetFlagsP { t, sz, page, pflags }),
        weights[5] => (0u8..3, any::<u16>()).prop_map(|(sz, page)| MOp::TranslatePage { sz, page }),
        weights[6] => (any::<u16>(), any::<u32>()).prop_map(|(page, off)| MOp::Translate { page, off }),
        weights[7] => Just(MOp::CleanUp),
        weights[8] => (any::<u16>(), any::<u16>(), 0u8..8).prop_map(|(a, b, mode)| MOp::CleanUpRange { a, b, mode }),
    ]
}

pub fn map_case(weights: [u32; 9], max_ops: usize) -> impl Strategy<Value = MapCase> {
    let anchor = (
        prop_oneof![2 => Just(0u16), 1 => Just(1u16), 1 => Just(255u16), 1 => Just(256u16), 1 => Just(511u16), 2 => 0u16..512],
        idx9(),
        idx9(),
        idx9(),
    );
    (
        (prop_oneof![Just(0u64), any::<u64>()], any::<u16>(), any::<u16>()),
        proptest::collection::vec(anchor, 1..4),
        proptest::collection::vec(phys(), 2..6),
        proptest::collection::vec(flag_bits(LEAF_FLAG_BITS), 2..5),
        proptest::collection::vec(flag_bits(PARENT_FLAG_BITS), 2..4),
        proptest::collection::vec(prop_oneof![3 => any::<u32>(), 1 => (0u32..64).prop_map(|k| k * 512), 1 => (0u32..8).prop_map(|k| k * 512 * 512), 1 => Just(0u32)], 10..24),
        proptest::collection::vec(mop(weights), 0..max_ops),
    )
        .prop_map(|((p0, rec, cr3_low), anchors, frames, flag_sets, pflag_sets, alloc, ops)| MapCase {
            p0,
            rec,
            cr3_low,
            anchors,
            frames,
            flag_sets,
            pflag_sets,
            alloc,
            ops,
        })
}

// ------------------------------------------------------------------------------------------------
// allocator
// ------------------------------------------------------------------------------------------------

#[derive(Debug, Clone, PartialEq)]
pub enum AllocEvent {
    Alloc(Option<u64>),
    Dealloc { frame: u64, zero: bool, still_linked: bool },
}

pub struct Alloc {
    pub pool: VecDeque<u64>,
    /// fail the k-th (1-based) request of the current call; 4 = all
    pub fail: u8,
    pub calls: usize,
    pub log: Vec<AllocEvent>,
    pub window: bool,
    /// frames handed out and not released
    pub in_use: BTreeSet<u64>,
}

unsafe impl FrameAllocator<Size4KiB> for Alloc {
    fn allocate_frame(&mut self) -> Option<PhysFrame<Size4KiB>> {
        self.calls += 1;
        let fail = self.fail == 4 || (self.fail != 0 && self.calls == self.fail as usize);
        if fail {
            self.log.push(AllocEvent::Alloc(None));
            return None;
        }
        let f = match self.pool.pop_front() {
            Some(f) => f,
            None => {
                self.log.push(AllocEvent::Alloc(None));
                return None;
            }
        };
        self.in_use.insert(f);
        let m = mem();
        let _ = m.frame_ptr(f); // materialise (junk) so that a missing zero() is visible
        m.tables.insert(f);
        if self.window {
            m.window_map(f);
        }
        self.log.push(AllocEvent::Alloc(Some(f)));
        Some(PhysFrame::containing_address(PhysAddr::new(f)))
    }
}

impl FrameDeallocator<Size4KiB> for Alloc {
    unsafe fn deallocate_frame(&mut self, frame: PhysFrame<Size4KiB>) {
        let f = frame.start_address().as_u64();
        let m = mem();
        // inspect memory at this very moment: the table must be empty and unlinked
        let snap = m.snapshot(f);
        let zero = snap.iter().all(|w| *w == 0);
        let mut still_linked = false;
        let tables: Vec<u64> = m.tables.iter().copied().collect();
        for t in tables {
            let s = m.snapshot(t);
            if s.iter().any(|w| w & P != 0 && w & ADDR_MASK == f && (w & HUGE == 0)) {
                still_linked = true;
            }
        }
        self.log.push(AllocEvent::Dealloc { frame: f, zero, still_linked });
        m.tables.remove(&f);
        if self.window {
            m.window_unmap(f);
        }
        self.in_use.remove(&f);
        // recycled frames are handed out again first
        self.pool.push_front(f);
    }
}

// ------------------------------------------------------------------------------------------------
// backends
// ------------------------------------------------------------------------------------------------

#[derive(Clone, Copy, Debug, PartialEq, Eq, Serialize, Deserialize)]
pub enum Backend {
    Mapped,
    Offset,
    Recursive,
}

pub struct LogMapping;
unsafe impl PageTableFrameMapping for LogMapping {
    fn frame_to_pointer(&self, frame: PhysFrame) -> *mut PageTable {
        let f = frame.start_address().as_u64();
        let m = mem();
        m.log.push(Access::Pointer(f));
        m.frame_ptr(f) as *mut PageTable
    }
}

// ------------------------------------------------------------------------------------------------
// interpreter
// ------------------------------------------------------------------------------------------------

#[derive(Debug, Clone)]
pub struct Fail {
    pub tag: u32,
    pub msg: String,
}

pub struct Ctx {
    pub backend: Backend,
    pub model: Model,
    pub alloc: Alloc,
    pub p4_frame: u64,
    pub rec: u16,
    pub pages: Vec<u64>,
    pub frames: Vec<u64>,
    pub flag_sets: Vec<u64>,
    pub pflag_sets: Vec<u64>,
    pub probes: Vec<u64>,
    /// frames that are expected to be all zero although they are not tables (released tables)
    pub zeroed: BTreeSet<u64>,
    /// per step: normalised result string (for the cross-backend comparison)
    pub results: Vec<(usize, String)>,
    pub labels: Vec<String>,
    pub shape: Vec<(u8, u8, u8)>,
    pub step: usize,
    /// frames reserved for tables (allocator pool + level 4), never used as data frames
    pub table_pool: BTreeSet<u64>,
    pub nontrivial: u32,
    pub skipped: u64,
    pub excluded: Vec<String>,
    pub successes: u32,
    pub freed_any: bool,
    pub enabled: u32,
    /// first step that was skipped on this backend (later states are not comparable across backends)
    pub first_skip: Option<usize>,
    /// a C09 run continues after an oracle of another property failed: the model no longer describes
    /// memory, only the model-independent C09 oracles are evaluated from then on
    pub degraded: bool,
    /// the recursive mapper was handed its level-4 table through an alias (new_unchecked), so level-4
    /// accesses do not go through the recursive address
    pub p4_alias: bool,
}

macro_rules! fail {
    ($tag:expr, $($arg:tt)*) => {
        return Err(Fail { tag: $tag, msg: format!($($arg)*) })
    };
}

fn page_of<S: PageSize>(a: u64) -> Page<S> {
    Page::containing_address(VirtAddr::new(a))
}
fn lvl_of(sz: u8) -> u8 {
    (sz % 3) + 1
}

fn pos(a: u64) -> u128 {
    (a & 0xffff_ffff_ffff) as u128
}

impl Ctx {
    fn pick_page(&self, ix: u16, lvl: u8) -> u64 {
        let a = self.pages[pick(ix, self.pages.len())];
        a & !(model::size_of_level(lvl) - 1)
    }
    fn pick_flags(&self, ix: u16, lvl: u8) -> u64 {
        let mut f = self.flag_sets[pick(ix, self.flag_sets.len())] | P;
        if lvl > 1 {
            f &= !HUGE; // HUGE is added by the mapper for huge leaves
            if ix & 3 == 0 {
                if known().pat_huge {
                    EXCLUDED_PAT.with(|c| c.set(c.get() + 1));
                } else {
                    f |= 1 << 12; // PAT bit of huge pages
                }
            }
        }
        f
    }
    fn pick_pflags(&self, ix: u16) -> u64 {
        let f = self.pflag_sets[pick(ix, self.pflag_sets.len())] | P;
        if self.backend == Backend::Recursive {
            f | W
        } else {
            f
        }
    }
    /// Explicit parent flags of map_to_with_table_flags. The recursive mapper sets PRESENT|WRITABLE on
    /// the parent entries it creates by itself, so for it any set - including the empty one - is a
    /// sound argument (no non-present parent entry can arise); a quarter of its cases use the raw set.
    fn pick_map_pflags(&self, ix: u16) -> u64 {
        if self.backend == Backend::Recursive && ix & 3 == 1 {
            self.pflag_sets[pick(ix, self.pflag_sets.len())]
        } else {
            self.pick_pflags(ix)
        }
    }
    /// a data frame of the level's size that does not overlap any table frame
    fn pick_frame(&self, ix: u16, lvl: u8) -> Option<u64> {
        let size = model::size_of_level(lvl);
        let mut f = self.frames[pick(ix, self.frames.len())] & ADDR_MASK & !(size - 1);
        for _ in 0..8 {
            let overlaps = self.table_pool.range(f..f.saturating_add(size)).next().is_some() || f == simmem::GUARD_FRAME & !(size - 1);
            if !overlaps {
                return Some(f);
            }
            f = (f.wrapping_add(size * 3)) & ADDR_MASK & !(size - 1);
        }
        None
    }

    /// Expected content of every materialised frame according to the model.
    fn check_memory(&mut self, after_err: bool, new_tables: &BTreeSet<u64>) -> Result<(), Fail> {
        let m = mem();
        let mut expect: BTreeMap<u64, [u64; 512]> = BTreeMap::new();
        for t in self.model.tables() {
            expect.insert(t.frame, t.render());
        }
        let rb = if self.degraded { T_ROBUST } else { 0 };
        for f in m.materialised() {
            if self.degraded && self.table_pool.contains(&f) {
                continue; // what a frame that can be a table holds is the model's business
            }
            let got = m.snapshot(f);
            let (want, is_table): ([u64; 512], bool) = match expect.get(&f) {
                Some(r) => (*r, true),
                None => {
                    if self.zeroed.contains(&f) {
                        ([0u64; 512], false)
                    } else {
                        let mut j = [0u64; 512];
                        for i in 0..512 {
                            j[i] = simmem::junk_word(f, i);
                        }
                        (j, false)
                    }
                }
            };
            if got != want {
                let i = (0..512).find(|i| got[*i] != want[*i]).unwrap();
                let n = (0..512).filter(|i| got[*i] != want[*i]).count();
                if !is_table {
                    fail!(T_C09 | rb, "step {} ({:?}): physical frame {:#x}, which is not a page table of this hierarchy, was modified: word {} is {:#x}, expected {:#x} ({} words differ)", self.step, self.backend, f, i, got[i], want[i], n);
                }
                if new_tables.contains(&f) && want[i] == 0 && n > 4 {
                    fail!(T_C09, "step {} ({:?}): new page-table frame {:#x} was not zeroed: slot {} holds {:#x} ({} slots differ)", self.step, self.backend, f, i, got[i], n);
                }
                let tag = if after_err { T_C02 } else { T_C01 };
                fail!(tag, "step {} ({:?}): page table at frame {:#x} slot {}: memory holds {:#x}, the history of calls dictates {:#x} ({} slots differ{})", self.step, self.backend, f, i, got[i], want[i], n, if after_err { "; the call returned an error and must not change any mapping" } else { "" });
            }
        }
        if m.overflow {
            fail!(0, "harness: simulated memory slots exhausted");
        }
        Ok(())
    }

    fn check_access_log(&mut self, tables_before: &BTreeSet<u64>, allowed_vpages: Option<&BTreeSet<u64>>) -> Result<(), Fail> {
        let m = mem();
        let log = std::mem::take(&mut m.log);
        let now = self.model.table_frames();
        let rb = if self.degraded { T_ROBUST } else { 0 };
        let allowed_vpages = if self.degraded { None } else { allowed_vpages };
        // (removed, false alarm: an earlier version required the recursive mapper's first access to a
        // frame that became a table in this call to be a write. A zeroing routine that reads each slot
        // and writes only the non-zero ones leaves the table completely zeroed before any entry is
        // used, so the property holds and the rule demanded more than it states. Use of junk entries
        // is decided by its effect instead: the junk shapes point at the guard frame / at data frames.)
        for a in &log {
            match *a {
                Access::Pointer(f) => {
                    if !tables_before.contains(&f) && !now.contains(&f) && !self.alloc.in_use.contains(&f) && !(self.degraded && self.table_pool.contains(&f)) {
                        fail!(T_C09 | rb, "step {} (Mapped): frame_to_pointer asked for frame {:#x}, which is not a page table of this hierarchy (a data frame or unrelated memory would be dereferenced)", self.step, f);
                    }
                }
                Access::WindowFault { frame, write } => {
                    if self.degraded && self.table_pool.contains(&frame) {
                        continue; // a frame of the table pool that the model-less run cannot classify
                    }
                    fail!(T_C09 | rb, "step {} (Offset): {} physical frame {:#x} through the offset mapping, which is not a page table of this hierarchy", self.step, if write { "wrote" } else { "read" }, frame);
                }
                Access::Mmu { vpage, frame, write } => {
                    if !tables_before.contains(&frame) && !now.contains(&frame) && !self.alloc.in_use.contains(&frame) && !(self.degraded && self.table_pool.contains(&frame)) {
                        fail!(T_C09 | rb, "step {} (Recursive): recursive address {:#x} resolved to frame {:#x}, which is not a page table of this hierarchy ({})", self.step, vpage, frame, if write { "write" } else { "read" });
                    }
                    if let Some(al) = allowed_vpages {
                        if !al.contains(&vpage) {
                            fail!(T_C20, "step {} (Recursive): accessed recursive page {:#x}, which is not one of the table pages of this call: {:x?}", self.step, vpage, al);
                        }
                    }
                }
                Access::MmuUnresolved { vaddr } => {
                    fail!(T_C09 | rb, "step {} (Recursive): dereferenced recursive address {:#x} that the MMU cannot resolve (a non-present entry on the walk)", self.step, vaddr);
                }
            }
        }
        Ok(())
    }

    /// recursive table pages a call may touch that works on the entry of `vaddr` in the level-`deepest`
    /// table (a 4 KiB / 2 MiB / 1 GiB leaf lives in a level-1 / 2 / 3 table; set_flags_pN_entry works
    /// on the level-N table): the tables of levels 4 down to `deepest`, nothing below
    fn rec_pages_to(&self, vaddr: u64, deepest: u8) -> BTreeSet<u64> {
        let all = self.rec_pages_list(vaddr);
        all.into_iter().take(5 - deepest.clamp(1, 4) as usize).collect()
    }
    fn rec_pages_list(&self, vaddr: u64) -> Vec<u64> {
        let r = self.rec as u64;
        let i = |l: u8| model::idx(vaddr, l) as u64;
        let mk = |a: u64, b: u64, c: u64, d: u64| sign_extend48((a << 39) | (b << 30) | (c << 21) | (d << 12));
        vec![mk(r, r, r, r), mk(r, r, r, i(4)), mk(r, r, i(4), i(3)), mk(r, i(4), i(3), i(2))]
    }
    /// recursive table pages a call on `vaddr` may touch (independent formula)
    fn rec_pages(&self, vaddr: u64) -> BTreeSet<u64> {
        let r = self.rec as u64;
        let i = |l: u8| model::idx(vaddr, l) as u64;
        let mk = |a: u64, b: u64, c: u64, d: u64| sign_extend48((a << 39) | (b << 30) | (c << 21) | (d << 12));
        [mk(r, r, r, r), mk(r, r, r, i(4)), mk(r, r, i(4), i(3)), mk(r, i(4), i(3), i(2))].into_iter().collect()
    }
}

fn norm<T: std::fmt::Debug, E: std::fmt::Debug>(r: &Result<T, E>) -> String {
    match r {
        Ok(v) => format!("Ok({:?})", v),
        Err(e) => format!("Err({:?})", e),
    }
}

/// One step on mapper `m`. Returns Ok(()) or an oracle failure. When the primary (result) oracle
/// fails with a category that is not enabled for the running property, the memory and access-log
/// oracles are still evaluated so that an enabled category (C09, C20) can report what it saw.
pub fn step<M>(ctx: &mut Ctx, m: &mut M, op: &MOp) -> Result<(), Fail>
where
    M: Mapper<Size4KiB> + Mapper<Size2MiB> + Mapper<Size1GiB> + Translate + CleanUp,
{
    let tables_before = ctx.model.table_frames();
    match step_inner(ctx, m, op, &tables_before) {
        Ok(()) => Ok(()),
        Err(f) => {
            if f.tag != 0 && f.tag & ctx.enabled == 0 {
                if let Err(g) = ctx.check_access_log(&tables_before, None) {
                    if g.tag & ctx.enabled != 0 {
                        return Err(g);
                    }
                }
                if let Err(g) = ctx.check_memory(true, &BTreeSet::new()) {
                    if g.tag & ctx.enabled & (T_C09 | T_C20) != 0 {
                        return Err(g);
                    }
                }
            }
            Err(f)
        }
    }
}

/// A step of a history that continues after an oracle of another property has failed (C09 runs only):
/// the call is made as usual, but since the model no longer describes memory only failures of the
/// model-independent oracles count - accesses to frames that can never be tables of this hierarchy,
/// unresolvable recursive addresses, modification of memory outside the table pool.
fn degraded_step<M>(ctx: &mut Ctx, m: &mut M, op: &MOp) -> Result<(), Fail>
where
    M: Mapper<Size4KiB> + Mapper<Size2MiB> + Mapper<Size1GiB> + Translate + CleanUp,
{
    let tables_before = ctx.model.table_frames();
    let strip = |f: Fail| Fail { tag: f.tag & !T_ROBUST, msg: format!("{} [history continued after a failure of another property's oracle]", f.msg) };
    match step_inner(ctx, m, op, &tables_before) {
        Ok(()) => Ok(()),
        Err(f) if f.tag & T_ROBUST != 0 => Err(strip(f)),
        Err(_) => {
            // stopped early at a model-based oracle: evaluate the model-independent ones on what is left
            if let Err(g) = ctx.check_access_log(&tables_before, None) {
                if g.tag & T_ROBUST != 0 {
                    return Err(strip(g));
                }
            }
            if let Err(g) = ctx.check_memory(true, &BTreeSet::new()) {
                if g.tag & T_ROBUST != 0 {
                    return Err(strip(g));
                }
            }
            Ok(())
        }
    }
}

fn step_inner<M>(ctx: &mut Ctx, m: &mut M, op: &MOp, tables_before: &BTreeSet<u64>) -> Result<(), Fail>
where
    M: Mapper<Size4KiB> + Mapper<Size2MiB> + Mapper<Size1GiB> + Translate + CleanUp,
{
    mem().log.clear();
    mem().flush_tlb();
    ctx.alloc.calls = 0;
    ctx.alloc.fail = 0;
    ctx.alloc.log.clear();
    let mut allowed: Option<BTreeSet<u64>> = None;
    let mut after_err = false;
    let mut new_tables: BTreeSet<u64> = BTreeSet::new();
    let mut is_cleanup = false;
    let kind: u8;
    let mut outcome_class = 0u8;
    let mut relation = 0u8;

    macro_rules! by_size {
        ($lvl:expr, |$S:ident| $body:expr) => {
            match $lvl {
                1 => {
                    type $S = Size4KiB;
                    $body
                }
                2 => {
                    type $S = Size2MiB;
                    $body
                }
                _ => {
                    type $S = Size1GiB;
                    $body
                }
            }
        };
    }

    match op {
        MOp::Map { .. } | MOp::IdentityMap { .. } => {
            let (lvl, va, frame, flags, pflags_explicit, fail, identity) = match op {
                MOp::Map { sz, page, frame, flags, pflags, fail } => {
                    let lvl = lvl_of(*sz);
                    let fr = match ctx.pick_frame(*frame, lvl) {
                        Some(f) => f,
                        None => {
                            ctx.skipped += 1;
                ctx.first_skip.get_or_insert(ctx.step);
                            return Ok(());
                        }
                    };
                    (lvl, ctx.pick_page(*page, lvl), fr, ctx.pick_flags(*flags, lvl), pflags.map(|p| ctx.pick_map_pflags(p)), *fail, false)
                }
                MOp::IdentityMap { sz, frame, flags, fail } => {
                    let lvl = lvl_of(*sz);
                    let fr = match ctx.pick_frame(*frame, lvl) {
                        Some(f) => f,
                        None => {
                            ctx.skipped += 1;
                ctx.first_skip.get_or_insert(ctx.step);
                            return Ok(());
                        }
                    };
                    (lvl, fr, fr, ctx.pick_flags(*flags, lvl), None, *fail, true)
                }
                _ => unreachable!(),
            };
            kind = if identity { 1 } else { 0 };
            // A quarter of the data frames hold zeros instead of junk (a freshly cleared page is the
            // most common content of a real data frame): code that wrongly reads a mapped frame as a
            // page table then sees an *empty* table, the one content for which clean-up releases it.
            let zero_sel = match op {
                MOp::Map { frame, .. } | MOp::IdentityMap { frame, .. } => *frame,
                _ => 0,
            };
            if zero_sel & 3 == 3 && !ctx.model.table_frames().contains(&frame) && !ctx.alloc.in_use.contains(&frame) {
                let mm = mem();
                for i in 0..512 {
                    mm.write(frame, i, 0);
                }
                ctx.zeroed.insert(frame);
                ctx.labels.push("zero-filled-data-frame".into());
            }
            if identity && frame >= (1 << 47) {
                // no identical virtual address exists: must panic, nothing may change
                let r = by_size!(lvl, |S| {
                    let fr = PhysFrame::<S>::containing_address(PhysAddr::new(frame));
                    outcome(|| unsafe { m.identity_map(fr, PageTableFlags::from_bits_retain(flags), &mut ctx.alloc) }.map(|f| f.page().start_address().as_u64()).map_err(|e| format!("{:?}", e)))
                });
                if !r.is_panic() {
                    fail!(T_C01, "step {} ({:?}): identity_map of frame {:#x} (>= 2^47, no identical canonical address) returned {:?} instead of panicking", ctx.step, ctx.backend, frame, r);
                }
                ctx.results.push((ctx.step, "identity-panic".into()));
                ctx.check_memory(true, &new_tables)?;
                return Ok(());
            }
            if ctx.backend == Backend::Recursive && model::idx(va, 4) == ctx.rec {
                ctx.skipped += 1;
                ctx.first_skip.get_or_insert(ctx.step);
                return Ok(());
            }
            // parent flags: explicit, or derived by map_to as flags & (P|W|U) (documented)
            let pf = match pflags_explicit {
                Some(p) => p,
                None => flags & 7,
            };
            let created_flags = if ctx.backend == Backend::Recursive { pf | P | W } else { pf };
            // expected outcome from the model
            #[derive(Debug, PartialEq)]
            enum Exp {
                Ok,
                AllocFailed,
                Huge,
                AlreadyMapped,
                AnyErr,
            }
            let mut missing = 0usize;
            let mut exp = Exp::Ok;
            {
                let mut t = &ctx.model.root;
                loop {
                    let l = t.level;
                    let e = t.e.get(&model::idx(va, l));
                    if l == lvl {
                        exp = match e {
                            None => Exp::Ok,
                            Some(Entry::Leaf(_)) => Exp::AlreadyMapped,
                            Some(Entry::Table { .. }) => Exp::AnyErr,
                            Some(Entry::Reserved(_)) => Exp::AnyErr,
                        };
                        break;
                    }
                    match e {
                        None => {
                            missing = (l - lvl) as usize;
                            exp = Exp::Ok;
                            break;
                        }
                        Some(Entry::Leaf(_)) => {
                            exp = Exp::Huge;
                            break;
                        }
                        Some(Entry::Table { t: c, .. }) => t = c,
                        Some(Entry::Reserved(_)) => {
                            exp = Exp::AnyErr;
                            break;
                        }
                    }
                }
            }
            let pool_left = ctx.alloc.pool.len();
            let fail_k = match fail {
                0 => None,
                4 => Some(1usize),
                k => Some(k as usize),
            };
            let mut will_create = missing;
            if exp == Exp::Ok {
                let first_fail = match fail_k {
                    Some(k) if k <= missing => Some(k),
                    _ => None,
                };
                let first_fail = match first_fail {
                    Some(k) => Some(k.min(pool_left + 1)),
                    None if missing > pool_left => Some(pool_left + 1),
                    None => None,
                };
                if let Some(k) = first_fail {
                    exp = Exp::AllocFailed;
                    will_create = k - 1;
                }
            }
            ctx.alloc.fail = fail;
            if ctx.backend == Backend::Recursive {
                allowed = Some(ctx.rec_pages_to(va, lvl));
            }
            // the call
            let r: Outcome<Result<u64, String>> = by_size!(lvl, |S| {
                let pg = page_of::<S>(va);
                let fr = PhysFrame::<S>::containing_address(PhysAddr::new(frame));
                let fl = PageTableFlags::from_bits_retain(flags);
                outcome(|| {
                    let r = unsafe {
                        if identity {
                            m.identity_map(fr, fl, &mut ctx.alloc)
                        } else {
                            match pflags_explicit {
                                Some(p) => m.map_to_with_table_flags(pg, fr, fl, PageTableFlags::from_bits_retain(p), &mut ctx.alloc),
                                None => m.map_to(pg, fr, fl, &mut ctx.alloc),
                            }
                        }
                    };
                    match r {
                        Ok(f) => Ok(f.page().start_address().as_u64()),
                        Err(MapToError::FrameAllocationFailed) => Err("FrameAllocationFailed".to_string()),
                        Err(MapToError::ParentEntryHugePage) => Err("ParentEntryHugePage".to_string()),
                        Err(MapToError::PageAlreadyMapped(f)) => Err(format!("PageAlreadyMapped({:#x})", f.start_address().as_u64())),
                    }
                })
            });
            let what = format!(
                "step {} ({:?}): {}<{}>(page {:#x}, frame {:#x}, flags {:#x}, parent flags {:#x}{}) in state {:?}",
                ctx.step,
                ctx.backend,
                if identity { "identity_map" } else if pflags_explicit.is_some() { "map_to_with_table_flags" } else { "map_to" },
                ["4KiB", "2MiB", "1GiB"][(lvl - 1) as usize],
                va,
                frame,
                flags,
                pf,
                if fail != 0 { format!(", allocator failing request {}", fail) } else { String::new() },
                ctx.model.state(va, lvl)
            );
            let r = match r {
                Outcome::Ret(r) => r,
                Outcome::Panic(msg) => fail!(if exp == Exp::Ok { T_C01 } else { T_C02 }, "{} panicked: {}", what, msg),
            };
            ctx.results.push((ctx.step, format!("{:?}", r)));
            // apply what the implementation was allowed / required to do to the model
            let allocs: Vec<u64> = ctx.alloc.log.iter().filter_map(|e| if let AllocEvent::Alloc(Some(f)) = e { Some(*f) } else { None }).collect();
            new_tables = allocs.iter().copied().collect();
            let requests = ctx.alloc.log.len();
            // walk the model, creating tables from the frames actually handed out (in order)
            {
                let mut ai = 0usize;
                let mut t = &mut ctx.model.root;
                while t.level > lvl {
                    let l = t.level;
                    let i = model::idx(va, l);
                    let exists = t.e.contains_key(&i);
                    if !exists {
                        if ai < will_create && ai < allocs.len() {
                            let span = model::size_of_level(l);
                            let mut nt = Table::new(allocs[ai], l - 1);
                            nt.base = va & !(span - 1);
                            t.e.insert(i, Entry::Table { flags: created_flags, t: Box::new(nt) });
                            ai += 1;
                        } else {
                            break;
                        }
                    }
                    match t.e.get_mut(&i) {
                        Some(Entry::Table { flags: fl, t: c }) => {
                            if exists && pf != 0 && *fl & pf != pf && r.is_ok() {
                                // existing parent entries gain the requested parent flags
                                *fl |= pf;
                            }
                            t = c;
                        }
                        _ => break,
                    }
                }
            }
            if r.is_err() {
                adopt_parent_widening(ctx, va, lvl, pf);
            }
            match (&r, &exp) {
                (Ok(p), Exp::Ok) => {
                    if *p != va {
                        fail!(T_C11, "{}: the flush token names page {:#x}, not the page that was mapped", what, p);
                    }
                    let raw = frame | flags | if lvl > 1 { HUGE } else { 0 };
                    match ctx.model.table_mut(va, lvl) {
                        Some(t) => {
                            t.e.insert(model::idx(va, lvl), Entry::Leaf(raw));
                        }
                        None => fail!(0, "harness: model path missing after successful map"),
                    }
                    if requests != missing {
                        fail!(T_C09, "{}: {} frame(s) requested from the allocator, {} table(s) were missing", what, requests, missing);
                    }
                }
                (Err(e), Exp::AllocFailed) if e == "FrameAllocationFailed" => {
                    after_err = true;
                    if requests != will_create + 1 {
                        fail!(T_C02, "{}: allocation failure expected at request {}, but the allocator saw {} request(s)", what, will_create + 1, requests);
                    }
                }
                (Err(e), Exp::Huge) if e == "ParentEntryHugePage" => {
                    after_err = true;
                    if requests != 0 {
                        fail!(T_C09, "{}: requested {} frame(s) although the page lies inside a huge page", what, requests);
                    }
                }
                (Err(e), Exp::AlreadyMapped) if e.starts_with("PageAlreadyMapped") => {
                    after_err = true;
                    if requests != 0 {
                        fail!(T_C09, "{}: requested {} frame(s) although all tables exist", what, requests);
                    }
                }
                (Err(_), Exp::AnyErr) => {
                    after_err = true;
                }
                (got, exp) => {
                    let tag = if *exp == Exp::Ok { T_C01 | T_C02 } else { T_C02 };
                    fail!(tag, "{}: returned {:?}, the documentation defines {:?} for this state", what, got, exp);
                }
            }
            outcome_class = match exp {
                Exp::Ok => 0,
                Exp::AllocFailed => 1,
                Exp::Huge => 2,
                Exp::AlreadyMapped => 3,
                Exp::AnyErr => 4,
            };
            if exp == Exp::AllocFailed && will_create >= 1 {
                ctx.nontrivial |= T_C02;
                ctx.labels.push("alloc-failure-at-2nd-or-3rd-point".into());
            }
            if allocs.iter().any(|f| ctx.zeroed.contains(f)) {
                ctx.nontrivial |= T_C09;
                ctx.labels.push("allocated-recycled-frame".into());
            }
            for f in &allocs {
                ctx.zeroed.remove(f);
            }
            if exp == Exp::Huge {
                ctx.nontrivial |= T_C09 | T_C02;
                relation = 1;
            }
        }
        MOp::Unmap { sz, page } => {
            kind = 2;
            let lvl = lvl_of(*sz);
            let va = ctx.pick_page(*page, lvl);
            if ctx.backend == Backend::Recursive && model::idx(va, 4) == ctx.rec {
                ctx.skipped += 1;
                ctx.first_skip.get_or_insert(ctx.step);
                return Ok(());
            }
            let st = ctx.model.state(va, lvl);
            if ctx.backend == Backend::Recursive {
                allowed = Some(ctx.rec_pages_to(va, lvl));
            }
            let r: Outcome<Result<(u64, u64), String>> = by_size!(lvl, |S| {
                let pg = page_of::<S>(va);
                outcome(|| match <M as Mapper<S>>::unmap(m, pg) {
                    Ok((f, fl)) => Ok((f.start_address().as_u64(), fl.page().start_address().as_u64())),
                    Err(UnmapError::PageNotMapped) => Err("PageNotMapped".to_string()),
                    Err(UnmapError::ParentEntryHugePage) => Err("ParentEntryHugePage".to_string()),
                    Err(UnmapError::InvalidFrameAddress(a)) => Err(format!("InvalidFrameAddress({:#x})", a.as_u64())),
                })
            });
            let what = format!("step {} ({:?}): unmap<{}>(page {:#x}) in state {:?}", ctx.step, ctx.backend, ["4KiB", "2MiB", "1GiB"][(lvl - 1) as usize], va, st);
            let r = match r {
                Outcome::Ret(r) => r,
                Outcome::Panic(msg) => fail!(T_C02, "{} panicked: {}", what, msg),
            };
            ctx.results.push((ctx.step, format!("{:?}", r)));
            match (st, &r) {
                (State::Mapped { raw }, Ok((f, p))) => {
                    let size = model::size_of_level(lvl);
                    let given = raw & ADDR_MASK & !(size - 1);
                    if *f != given {
                        fail!(T_C01, "{}: returned frame {:#x}, the frame given to the map was {:#x}", what, f, given);
                    }
                    if *p != va {
                        fail!(T_C11, "{}: the flush token names page {:#x}", what, p);
                    }
                    ctx.model.table_mut(va, lvl).unwrap().e.remove(&model::idx(va, lvl));
                }
                (State::Absent { .. }, Err(e)) if e == "PageNotMapped" => after_err = true,
                (State::InsideHuge { .. }, Err(e)) if e == "ParentEntryHugePage" => after_err = true,
                (State::SubTable, Err(_)) => after_err = true,
                (st, got) => {
                    let tag = if matches!(st, State::Mapped { .. }) { T_C01 | T_C02 } else { T_C02 };
                    fail!(tag, "{}: returned {:?}", what, got);
                }
            }
            outcome_class = state_class(&st);
            if matches!(st, State::InsideHuge { .. }) {
                ctx.nontrivial |= T_C09 | T_C02;
                relation = 1;
            }
        }
        MOp::UpdateFlags { sz, page, flags } => {
            kind = 3;
            let lvl = lvl_of(*sz);
            let va = ctx.pick_page(*page, lvl);
            if ctx.backend == Backend::Recursive && model::idx(va, 4) == ctx.rec {
                ctx.skipped += 1;
                ctx.first_skip.get_or_insert(ctx.step);
                return Ok(());
            }
            let fl = ctx.pick_flags(*flags, lvl);
            let st = ctx.model.state(va, lvl);
            if ctx.backend == Backend::Recursive {
                allowed = Some(ctx.rec_pages_to(va, lvl));
            }
            let r: Outcome<Result<u64, String>> = by_size!(lvl, |S| {
                let pg = page_of::<S>(va);
                outcome(|| match unsafe { <M as Mapper<S>>::update_flags(m, pg, PageTableFlags::from_bits_retain(fl)) } {
                    Ok(f) => Ok(f.page().start_address().as_u64()),
                    Err(FlagUpdateError::PageNotMapped) => Err("PageNotMapped".to_string()),
                    Err(FlagUpdateError::ParentEntryHugePage) => Err("ParentEntryHugePage".to_string()),
                })
            });
            let what = format!("step {} ({:?}): update_flags<{}>(page {:#x}, flags {:#x}) in state {:?}", ctx.step, ctx.backend, ["4KiB", "2MiB", "1GiB"][(lvl - 1) as usize], va, fl, st);
            let r = match r {
                Outcome::Ret(r) => r,
                Outcome::Panic(msg) => fail!(T_C02, "{} panicked: {}", what, msg),
            };
            ctx.results.push((ctx.step, format!("{:?}", r)));
            match (st, &r) {
                (State::Mapped { raw }, Ok(p)) => {
                    if *p != va {
                        fail!(T_C11, "{}: the flush token names page {:#x}", what, p);
                    }
                    let size = model::size_of_level(lvl);
                    let addr = raw & ADDR_MASK & !(size - 1);
                    let new = addr | fl | if lvl > 1 { HUGE } else { 0 };
                    ctx.model.table_mut(va, lvl).unwrap().e.insert(model::idx(va, lvl), Entry::Leaf(new));
                }
                (State::Absent { .. }, Err(e)) if e == "PageNotMapped" => after_err = true,
                (State::InsideHuge { .. }, Err(e)) if e == "ParentEntryHugePage" => after_err = true,
                (State::SubTable, Err(_)) => after_err = true,
                (State::SubTable, Ok(_)) => {
                    fail!(T_C02, "{}: reported success for a {} mapping that does not exist (the entry references a lower-level table)", what, ["4KiB", "2MiB", "1GiB"][(lvl - 1) as usize]);
                }
                (st, got) => {
                    let tag = if matches!(st, State::Mapped { .. }) { T_C01 | T_C02 } else { T_C02 };
                    fail!(tag, "{}: returned {:?}", what, got);
                }
            }
            outcome_class = state_class(&st);
            if matches!(st, State::InsideHuge { .. }) {
                ctx.nontrivial |= T_C09 | T_C02;
                relation = 1;
            }
            if st == State::SubTable {
                relation = 2;
            }
        }
        MOp::SetFlagsP { t, sz, page, pflags } => {
            kind = 4;
            let lvl = lvl_of(*sz);
            let tl = *t; // 4, 3, 2
            let va = ctx.pick_page(*page, lvl);
            if ctx.backend == Backend::Recursive && model::idx(va, 4) == ctx.rec {
                ctx.skipped += 1;
                ctx.first_skip.get_or_insert(ctx.step);
                return Ok(());
            }
            let pf = ctx.pick_pflags(*pflags);
            if ctx.backend == Backend::Recursive {
                allowed = Some(ctx.rec_pages_to(va, tl));
            }
            // classification by the level-t entry on the page's walk
            #[derive(Debug, PartialEq, Clone, Copy)]
            enum Exp {
                AnyErr,
                NotMapped,
                Huge,
                Ok,
            }
            let exp = if tl <= lvl {
                Exp::AnyErr
            } else {
                match ctx.model.entry_at(va, tl) {
                    Err(State::Absent { .. }) => Exp::NotMapped,
                    Err(State::InsideHuge { .. }) => Exp::Huge,
                    Err(_) => Exp::AnyErr,
                    Ok(None) => Exp::NotMapped,
                    Ok(Some(Entry::Leaf(_))) => Exp::Huge,
                    Ok(Some(Entry::Table { .. })) => Exp::Ok,
                    Ok(Some(Entry::Reserved(_))) => Exp::AnyErr,
                }
            };
            let r: Outcome<Result<(), String>> = by_size!(lvl, |S| {
                let pg = page_of::<S>(va);
                let f = PageTableFlags::from_bits_retain(pf);
                outcome(|| {
                    let r = unsafe {
                        match tl {
                            4 => <M as Mapper<S>>::set_flags_p4_entry(m, pg, f),
                            3 => <M as Mapper<S>>::set_flags_p3_entry(m, pg, f),
                            _ => <M as Mapper<S>>::set_flags_p2_entry(m, pg, f),
                        }
                    };
                    match r {
                        Ok(fa) => {
                            fa.ignore();
                            Ok(())
                        }
                        Err(FlagUpdateError::PageNotMapped) => Err("PageNotMapped".to_string()),
                        Err(FlagUpdateError::ParentEntryHugePage) => Err("ParentEntryHugePage".to_string()),
                    }
                })
            });
            let what = format!("step {} ({:?}): set_flags_p{}_entry<{}>(page {:#x}, flags {:#x}); level-{} entry: {:?}", ctx.step, ctx.backend, tl, ["4KiB", "2MiB", "1GiB"][(lvl - 1) as usize], va, pf, tl, exp);
            let r = match r {
                Outcome::Ret(r) => r,
                Outcome::Panic(msg) => fail!(T_C02, "{} panicked: {}", what, msg),
            };
            ctx.results.push((ctx.step, format!("{:?}", r)));
            match (exp, &r) {
                (Exp::Ok, Ok(())) => {
                    let i = model::idx(va, tl);
                    if let Some(Entry::Table { flags, .. }) = ctx.model.table_mut(va, tl).unwrap().e.get_mut(&i) {
                        *flags = pf;
                    }
                }
                (Exp::NotMapped, Err(e)) if e == "PageNotMapped" => after_err = true,
                (Exp::Huge, Err(e)) if e == "ParentEntryHugePage" => after_err = true,
                (Exp::AnyErr, Err(_)) => after_err = true,
                (exp, got) => {
                    fail!(if exp == Exp::Ok { T_C01 | T_C02 } else { T_C02 }, "{}: returned {:?}", what, got);
                }
            }
            outcome_class = exp as u8;
            if exp == Exp::Huge {
                ctx.nontrivial |= T_C09 | T_C02;
                relation = 1;
            }
        }
        MOp::TranslatePage { sz, page } => {
            kind = 5;
            let lvl = lvl_of(*sz);
            let va = ctx.pick_page(*page, lvl);
            if ctx.backend == Backend::Recursive && model::idx(va, 4) == ctx.rec {
                ctx.skipped += 1;
                ctx.first_skip.get_or_insert(ctx.step);
                return Ok(());
            }
            if ctx.backend == Backend::Recursive {
                allowed = Some(ctx.rec_pages_to(va, lvl));
            }
            let s = translate_page_check(ctx, m, va, lvl)?;
            ctx.results.push((ctx.step, s));
            after_err = true;
            let st = ctx.model.state(va, lvl);
            outcome_class = state_class(&st);
            if matches!(st, State::InsideHuge { .. }) {
                ctx.nontrivial |= T_C09;
                relation = 1;
            }
        }
        MOp::Translate { page, off } => {
            kind = 6;
            let va0 = ctx.pages[pick(*page, ctx.pages.len())];
            let va = sign_extend48((va0 & 0xffff_c000_0000_0000 & 0xffff_ffff_ffff) | ((va0 & 0x3fff_ffff_f000) ^ ((*off as u64) & 0x3fff_ffff)));
            if ctx.backend == Backend::Recursive && model::idx(va, 4) == ctx.rec {
                ctx.skipped += 1;
                ctx.first_skip.get_or_insert(ctx.step);
                return Ok(());
            }
            if ctx.backend == Backend::Recursive {
                allowed = Some(ctx.rec_pages(va));
            }
            let s = translate_check(ctx, m, va)?;
            ctx.results.push((ctx.step, s));
            after_err = true;
        }
        MOp::CleanUp | MOp::CleanUpRange { .. } => {
            kind = 7;
            is_cleanup = true;
            cleanup_step(ctx, m, op)?;
        }
    }

    // ---- common post-conditions -----------------------------------------------------------------
    if !is_cleanup {
        for e in &ctx.alloc.log {
            if let AllocEvent::Dealloc { frame, .. } = e {
                fail!(T_C09, "step {} ({:?}): a call other than clean-up released frame {:#x}", ctx.step, ctx.backend, frame);
            }
        }
        if kind >= 2 && !ctx.alloc.log.is_empty() {
            fail!(T_C09, "step {} ({:?}): a call that is not a map requested frames from the allocator: {:?}", ctx.step, ctx.backend, ctx.alloc.log);
        }
    }
    ctx.check_memory(after_err, &new_tables)?;
    ctx.check_access_log(tables_before, allowed.as_ref())?;
    if kind <= 4 {
        if after_err {
            if ctx.successes >= 2 {
                ctx.nontrivial |= T_C02;
            }
        } else {
            ctx.successes += 1;
            if kind <= 1 && ctx.freed_any {
                ctx.nontrivial |= T_C01; // unmap/clean-up followed by a re-map
            }
        }
    }
    ctx.shape.push((kind, outcome_class, relation));
    Ok(())
}

fn state_class(st: &State) -> u8 {
    match st {
        State::Absent { .. } => 0,
        State::InsideHuge { .. } => 1,
        State::Mapped { .. } => 2,
        State::SubTable => 3,
        State::Reserved => 4,
    }
}

/// After an error the implementation may have added the requested parent flags to existing
/// parent-table entries on the walked path; adopt exactly that (and nothing else).
fn adopt_parent_widening(ctx: &mut Ctx, va: u64, lvl: u8, pf: u64) {
    if pf == 0 {
        return;
    }
    let mut t = &mut ctx.model.root;
    while t.level > lvl {
        let i = model::idx(va, t.level);
        let frame = t.frame;
        match t.e.get_mut(&i) {
            Some(Entry::Table { flags, t: c }) => {
                let raw = mem().read(frame, i as usize);
                let got_flags = raw & !ADDR_MASK;
                if raw & ADDR_MASK == c.frame && got_flags == (*flags | pf) {
                    *flags |= pf;
                }
                t = c;
            }
            _ => break,
        }
    }
}

fn frame_sz(f: &MappedFrame) -> u64 {
    f.size()
}

/// translate()/translate_addr() of `va` against the model.
fn translate_check<M: Translate>(ctx: &mut Ctx, m: &mut M, va: u64) -> Result<String, Fail> {
    let want = ctx.model.translate(va);
    let r = outcome(|| {
        let r = m.translate(VirtAddr::new(va));
        let a = m.translate_addr(VirtAddr::new(va)).map(|p| p.as_u64());
        let s = match r {
            TranslateResult::Mapped { frame, offset, flags } => Ok((frame.start_address().as_u64(), frame_sz(&frame), offset, flags.bits())),
            TranslateResult::NotMapped => Err("NotMapped".to_string()),
            TranslateResult::InvalidFrameAddress(p) => Err(format!("InvalidFrameAddress({:#x})", p.as_u64())),
        };
        (s, a)
    });
    let what = format!("step {} ({:?}): translate({:#x})", ctx.step, ctx.backend, va);
    let (r, a) = match r {
        Outcome::Ret(x) => x,
        Outcome::Panic(msg) => fail!(T_C01, "{} panicked: {}", what, msg),
    };
    match (&want, &r) {
        (None, Err(e)) if e == "NotMapped" => {
            if a.is_some() {
                fail!(T_C01, "{}: translate_addr returned {:x?} for an unmapped address", what, a);
            }
        }
        (Some(t), Ok((fs, size, off, fl))) => {
            let frame_start = t.phys - (va & (t.size - 1));
            if *size != t.size || *fs != frame_start || *off != va & (t.size - 1) {
                fail!(T_C01, "{}: returned frame {:#x} size {:#x} offset {:#x}; the history dictates frame {:#x} size {:#x} offset {:#x}", what, fs, size, off, frame_start, t.size, va & (t.size - 1));
            }
            // leaf flags: 4 KiB entries are compared on bits 0-11 and 52-63 (bit 12 is an address bit there)
            let mask: u64 = if t.size == 4096 { 0xfff | (0xfff << 52) } else { 0x1fff | (0xfff << 52) };
            if fl & mask != t.raw_leaf & mask {
                fail!(T_C01, "{}: returned leaf flags {:#x}, the history dictates {:#x}", what, fl & mask, t.raw_leaf & mask);
            }
            if a != Some(t.phys) {
                fail!(T_C01, "{}: translate_addr returned {:x?}, expected {:#x}", what, a, t.phys);
            }
        }
        (w, g) => fail!(T_C01, "{}: returned {:x?}, the history dictates {:x?}", what, g, w),
    }
    Ok(format!("{:x?}/{:x?}", r, a))
}

fn translate_page_check<M>(ctx: &mut Ctx, m: &mut M, va: u64, lvl: u8) -> Result<String, Fail>
where
    M: Mapper<Size4KiB> + Mapper<Size2MiB> + Mapper<Size1GiB>,
{
    let st = ctx.model.state(va, lvl);
    let r: Outcome<Result<u64, String>> = match lvl {
        1 => outcome(|| tp_norm(<M as Mapper<Size4KiB>>::translate_page(m, page_of(va)))),
        2 => outcome(|| tp_norm(<M as Mapper<Size2MiB>>::translate_page(m, page_of(va)))),
        _ => outcome(|| tp_norm(<M as Mapper<Size1GiB>>::translate_page(m, page_of(va)))),
    };
    let what = format!("step {} ({:?}): translate_page<{}>({:#x}) in state {:?}", ctx.step, ctx.backend, ["4KiB", "2MiB", "1GiB"][(lvl - 1) as usize], va, st);
    let r = match r {
        Outcome::Ret(r) => r,
        Outcome::Panic(msg) => fail!(T_C02, "{} panicked: {}", what, msg),
    };
    match (st, &r) {
        (State::Mapped { raw }, Ok(f)) => {
            let size = model::size_of_level(lvl);
            if *f != raw & ADDR_MASK & !(size - 1) {
                fail!(T_C01, "{}: returned frame {:#x}, mapped frame is {:#x}", what, f, raw & ADDR_MASK & !(size - 1));
            }
        }
        (State::Absent { .. }, Err(e)) if e == "PageNotMapped" => {}
        (State::InsideHuge { .. }, Err(e)) if e == "ParentEntryHugePage" => {}
        (State::SubTable, Err(_)) => {}
        (State::SubTable, Ok(f)) => fail!(T_C02, "{}: reported success (frame {:#x}) for a mapping of a size that does not exist (the entry references a lower-level table)", what, f),
        (st, got) => fail!(if matches!(st, State::Mapped { .. }) { T_C01 | T_C02 } else { T_C02 }, "{}: returned {:x?}", what, got),
    }
    Ok(format!("{:x?}", r))
}

fn tp_norm<S: PageSize>(r: Result<PhysFrame<S>, TranslateError>) -> Result<u64, String> {
    match r {
        Ok(f) => Ok(f.start_address().as_u64()),
        Err(TranslateError::PageNotMapped) => Err("PageNotMapped".into()),
        Err(TranslateError::ParentEntryHugePage) => Err("ParentEntryHugePage".into()),
        Err(TranslateError::InvalidFrameAddress(a)) => Err(format!("InvalidFrameAddress({:#x})", a.as_u64())),
    }
}

// ------------------------------------------------------------------------------------------------
// clean-up (C10)
// ------------------------------------------------------------------------------------------------

fn span_of(t: &Table) -> (u128, u128) {
    let s = pos(t.base);
    (s, s + (1u128 << (12 + 9 * t.level as u32)))
}

fn cleanup_step<M>(ctx: &mut Ctx, m: &mut M, op: &MOp) -> Result<(), Fail>
where
    M: CleanUp + Translate,
{
    // the range
    let (start, end, whole) = match op {
        MOp::CleanUp => (0u64, 0xffff_ffff_ffff_f000u64, true),
        MOp::CleanUpRange { a, b, mode } => {
            let pa = ctx.pages[pick(*a, ctx.pages.len())] & !0xfff;
            let pb = ctx.pages[pick(*b, ctx.pages.len())] & !0xfff;
            let (lo, hi) = if pos(pa) <= pos(pb) { (pa, pb) } else { (pb, pa) };
            match mode % 8 {
                0 => (lo, lo, false),                                                    // single page
                1 => (hi, lo, false),                                                    // empty (inverted) unless equal
                2 => (lo & !0x1f_ffff, (lo & !0x1f_ffff) | 0x1f_f000, false),           // exactly one P1 table
                3 => (lo & !0x3fff_ffff, (lo & !0x3fff_ffff) | 0x3fff_f000, false),     // exactly one P2 table
                4 => (sign_extend48(lo & !0x7f_ffff_ffff), sign_extend48(lo | 0x7f_ffff_f000), false), // one P3 table
                5 => (lo, 0xffff_ffff_ffff_f000, false),                                 // up to the last page
                6 => (0, hi, false),
                _ => (lo, hi, false),                                                    // arbitrary, possibly across the gap
            }
        }
        _ => unreachable!(),
    };
    let (rs, re) = (pos(start), pos(end) + 4096); // [rs, re) in position space; empty if rs >= re
    let empty = pos(start) > pos(end);
    let before_model = ctx.model.clone();
    let probes_before: Vec<Option<model::Translation>> = ctx.probes.iter().map(|a| ctx.model.translate(*a)).collect();
    let what = format!("step {} ({:?}): {}({:#x}..={:#x})", ctx.step, ctx.backend, if whole { "clean_up" } else { "clean_up_addr_range" }, start, end);
    let r = outcome(|| unsafe {
        if whole {
            m.clean_up(&mut ctx.alloc)
        } else {
            m.clean_up_addr_range(Page::range_inclusive(page_of::<Size4KiB>(start), page_of::<Size4KiB>(end)), &mut ctx.alloc)
        }
    });
    if let Outcome::Panic(msg) = r {
        fail!(T_C10, "{} panicked: {}", what, msg);
    }
    let mut not_visited: Option<Fail> = None;
    // recursive mapper: every table that lies wholly inside the range has to be examined (there is no
    // other way to learn whether it is empty), and it and its ancestors are reached through the
    // recursive addresses the index-repetition formula gives for *that* table
    if ctx.backend == Backend::Recursive && !ctx.degraded && !empty {
        let visited: BTreeSet<u64> = mem().log.iter().filter_map(|a| if let Access::Mmu { vpage, .. } = a { Some(*vpage) } else { None }).collect();
        let r = ctx.rec as u64;
        let mk = |a: u64, b: u64, c: u64, d: u64| sign_extend48((a << 39) | (b << 30) | (c << 21) | (d << 12));
        let mut missing: Option<(u8, u64, u64)> = None;
        before_model.root.for_each_table(&mut |t| {
            if t.level < 4 && missing.is_none() {
                let (a, b) = span_of(t);
                if a >= rs && b <= re {
                    let i = |l: u8| model::idx(t.base, l) as u64;
                    let chain = [mk(r, r, r, r), mk(r, r, r, i(4)), mk(r, r, i(4), i(3)), mk(r, i(4), i(3), i(2))];
                    // the table itself (level L) is chain[4 - L]; its ancestors are the ones before it
                    for (k, pg) in chain.iter().take(5 - t.level as usize).enumerate() {
                        if k == 0 && ctx.p4_alias {
                            continue;
                        }
                        if !visited.contains(pg) {
                            missing = Some((4 - k as u8, t.base, *pg));
                            break;
                        }
                    }
                }
            }
        });
        if let Some((lvl, base, pg)) = missing {
            let f = Fail { tag: T_C20 | T_C10, msg: format!("{}: the level-{} table on the way to / of the table at {:#x}, which lies wholly inside the range, was never accessed through its recursive address {:#x} (pages accessed: {:x?})", what, lvl, base, pg, visited) };
            if ctx.enabled & T_C20 != 0 {
                return Err(f);
            }
            // runs of the other properties report what their own oracles see first (a table that was
            // not visited usually also shows as a wrong release or a lost translation)
            not_visited = Some(f);
        }
    }
    // process the deallocation log in order
    let log = ctx.alloc.log.clone();
    let mut freed: Vec<u64> = vec![];
    for e in &log {
        match e {
            AllocEvent::Alloc(_) => fail!(T_C09, "{}: clean-up requested a frame from the allocator", what),
            AllocEvent::Dealloc { frame, zero, still_linked } => {
                if freed.contains(frame) {
                    fail!(T_C10, "{}: frame {:#x} deallocated twice", what, frame);
                }
                if *frame == ctx.p4_frame {
                    fail!(T_C10, "{}: the level-4 table frame {:#x} was deallocated", what, frame);
                }
                // find the table in the model
                let mut found: Option<(u128, u128, u8, bool)> = None;
                ctx.model.root.for_each_table(&mut |t| {
                    if t.frame == *frame && t.level < 4 {
                        let (a, b) = span_of(t);
                        found = Some((a, b, t.level, t.e.is_empty()));
                    }
                });
                let (a, b, lvl, is_empty) = match found {
                    Some(x) => x,
                    None => fail!(T_C10 | T_C01 | T_C09, "{}: deallocated frame {:#x}, which is not a level-1..3 page table of this hierarchy (a huge-page frame, data frame or foreign frame)", what, frame),
                };
                if !is_empty {
                    fail!(T_C10 | T_C01, "{}: deallocated the level-{} table at frame {:#x}, which still holds an entry", what, lvl, frame);
                }
                if empty || !(a < re && rs < b) {
                    fail!(T_C10, "{}: deallocated the level-{} table at frame {:#x} covering [{:#x},{:#x}), which does not overlap the range", what, lvl, frame, a, b);
                }
                if !zero {
                    fail!(T_C10, "{}: at the moment frame {:#x} was deallocated it was not an empty table (non-zero entries in memory)", what, frame);
                }
                if *still_linked {
                    fail!(T_C10, "{}: frame {:#x} was deallocated while a parent entry still pointed to it (must be unlinked first)", what, frame);
                }
                // remove from the model
                remove_table(&mut ctx.model.root, *frame);
                freed.push(*frame);
                ctx.zeroed.insert(*frame);
            }
        }
    }
    // no empty table wholly inside the range may be left behind
    if !empty {
        let mut left: Option<(u64, u8)> = None;
        ctx.model.root.for_each_table(&mut |t| {
            if t.level < 4 && t.e.is_empty() {
                let (a, b) = span_of(t);
                if a >= rs && b <= re {
                    left = Some((t.frame, t.level));
                }
            }
        });
        if let Some((f, l)) = left {
            fail!(T_C10, "{}: the empty level-{} table at frame {:#x} lies wholly inside the range but was not deallocated", what, l, f);
        }
    }
    // translations unchanged (model side; the raw memory comparison follows in the caller)
    for (a, before) in ctx.probes.iter().zip(probes_before.iter()) {
        if ctx.model.translate(*a) != *before {
            fail!(T_C10, "{}: translation of {:#x} changed", what, a);
        }
    }
    ctx.results.push((ctx.step, format!("freed{:x?}", freed)));
    if !freed.is_empty() && ctx.model.tables().len() > 1 {
        ctx.nontrivial |= T_C10;
        ctx.labels.push("cleanup-freed-some-left-some".into());
    }
    if !freed.is_empty() {
        ctx.labels.push("cleanup-freed".into());
        ctx.freed_any = true;
    }
    // idempotence: repeating the clean-up deallocates nothing
    ctx.alloc.log.clear();
    mem().flush_tlb();
    let r = outcome(|| unsafe {
        if whole {
            m.clean_up(&mut ctx.alloc)
        } else {
            m.clean_up_addr_range(Page::range_inclusive(page_of::<Size4KiB>(start), page_of::<Size4KiB>(end)), &mut ctx.alloc)
        }
    });
    if let Outcome::Panic(msg) = r {
        fail!(T_C10, "{} (repeated) panicked: {}", what, msg);
    }
    if !ctx.alloc.log.is_empty() {
        fail!(T_C10, "{}: repeating the clean-up deallocated again: {:x?}", what, ctx.alloc.log);
    }
    let _ = before_model;
    if let Some(f) = not_visited {
        return Err(f);
    }
    Ok(())
}

fn remove_table(t: &mut Table, frame: u64) -> bool {
    let mut key = None;
    for (i, e) in t.e.iter_mut() {
        if let Entry::Table { t: c, .. } = e {
            if c.frame == frame {
                key = Some(*i);
                break;
            }
            if remove_table(c, frame) {
                return true;
            }
        }
    }
    if let Some(k) = key {
        t.e.remove(&k);
        return true;
    }
    false
}

// ------------------------------------------------------------------------------------------------
// running a whole case on one backend
// ------------------------------------------------------------------------------------------------

pub struct BackendRun {
    pub results: Vec<(usize, String)>,
    pub fail: Option<Fail>,
    pub labels: Vec<String>,
    pub shape: Vec<(u8, u8, u8)>,
    pub nontrivial: u32,
    pub steps_done: usize,
    pub final_tables: usize,
    pub first_skip: Option<usize>,
}

fn build_pages(case: &MapCase, rec: u16, avoid_rec: bool) -> Vec<u64> {
    let mut v = vec![];
    for (p4, p3, p2, p1) in &case.anchors {
        let mut p4 = *p4 % 512;
        if avoid_rec && p4 == rec {
            p4 = (p4 + 3) % 512;
        }
        let (p3, p2, p1) = (*p3 % 512, *p2 % 512, *p1 % 512);
        let mk = |a: u16, b: u16, c: u16, d: u16| va_from_indices(a % 512, b % 512, c % 512, d % 512, 0);
        v.push(mk(p4, p3, p2, p1));
        v.push(mk(p4, p3, p2, p1 ^ 1)); // neighbour in the same P1
        v.push(mk(p4, p3, p2 ^ 1, p1)); // neighbouring P1 table
        v.push(mk(p4, p3 ^ 1, p2, p1)); // neighbouring P2 table
        v.push(mk(p4, p3, p2, 0));
        v.push(mk(p4, p3, p2, 511));
        v.push(mk(p4, p3, 0, 0));
        v.push(mk(p4, p3, 511, 511));
        let mut p4n = p4 ^ 1;
        if avoid_rec && p4n == rec {
            p4n = (p4n + 2) % 512;
        }
        v.push(mk(p4n, p3, p2, p1)); // neighbouring P3 table
    }
    // pages whose level-3 / level-2 index equals the recursive index (a corner of the recursive mapper)
    if let Some((p4, p3, p2, p1)) = case.anchors.first() {
        let mut a = *p4 % 512;
        if a == rec {
            a = (a + 3) % 512;
        }
        v.push(va_from_indices(a, rec, *p2 % 512, *p1 % 512, 0));
        v.push(va_from_indices(a, *p3 % 512, rec, *p1 % 512, 0));
    }
    // first/last page of each half
    v.push(0);
    v.push(0x0000_7fff_ffff_f000);
    v.push(0xffff_8000_0000_0000);
    v.push(0xffff_ffff_ffff_f000);
    if avoid_rec {
        v.retain(|a| model::idx(*a, 4) != rec);
    }
    v
}

pub fn p0_of(case: &MapCase) -> u64 {
    // P0 <= WINDOW_BASE so that the physical-memory offset is non-negative
    (case.p0 % (WINDOW_BASE + 1)) & !0xfff
}

pub fn run_backend(case: &MapCase, backend: Backend, enabled: u32) -> BackendRun {
    run_backend_opts(case, backend, enabled, true)
}

/// `signals = false`: do not install the trap handler (MappedPageTable backend under libFuzzer).
pub fn run_backend_opts(case: &MapCase, backend: Backend, enabled: u32, signals: bool) -> BackendRun {
    if signals {
        umh::install();
    }
    let m = mem();
    m.reset();
    cpu().reset();
    let p0 = p0_of(case);
    let rec = usable_rec(case.rec);
    // allocator pool: distinct frames inside the window
    let mut pool: VecDeque<u64> = VecDeque::new();
    let mut seen = BTreeSet::new();
    for off in &case.alloc {
        let f = p0 + ((*off as u64) % (WINDOW_SIZE / 4096)) * 4096;
        if f < (1 << 52) && seen.insert(f) {
            pool.push_back(f);
        }
    }
    // the level-4 frame: first pool entry
    let p4_frame = pool.pop_front().unwrap_or(p0);
    let mut table_pool: BTreeSet<u64> = pool.iter().copied().collect();
    table_pool.insert(p4_frame);
    // an empty level-4 table
    for i in 0..512 {
        m.write(p4_frame, i, 0);
    }
    m.tables.insert(p4_frame);
    let mut model = Model::new(p4_frame);
    let pages = build_pages(case, rec, true);
    let mut probes: Vec<u64> = vec![];
    for a in &pages {
        probes.push(*a);
        probes.push(a | 0xfff);
        probes.push(a ^ 0x1000);
        probes.push((a & !0x1f_ffff) | 0x1f_ffff);
        probes.push(a & !0x3fff_ffff);
    }
    probes.sort();
    probes.dedup();
    probes.retain(|a| model::idx(*a, 4) != rec);
    let mut ctx = Ctx {
        backend,
        model: model.clone(),
        alloc: Alloc { pool, fail: 0, calls: 0, log: vec![], window: backend == Backend::Offset, in_use: BTreeSet::new() },
        p4_frame,
        rec,
        pages,
        frames: case.frames.clone(),
        flag_sets: case.flag_sets.clone(),
        pflag_sets: case.pflag_sets.clone(),
        probes,
        zeroed: BTreeSet::new(),
        results: vec![],
        labels: vec![],
        shape: vec![],
        step: 0,
        table_pool,
        nontrivial: 0,
        skipped: 0,
        excluded: vec![],
        successes: 0,
        freed_any: false,
        enabled,
        first_skip: None,
        degraded: false,
        p4_alias: false,
    };
    let fail = match backend {
        Backend::Mapped => {
            let p4 = unsafe { &mut *(m.frame_ptr(p4_frame) as *mut PageTable) };
            let mut mp = unsafe { MappedPageTable::new(p4, LogMapping) };
            run_ops(&mut ctx, &mut mp, case, enabled)
        }
        Backend::Offset => {
            m.window_enable(p0);
            m.window_map(p4_frame);
            let va = WINDOW_BASE + (p4_frame - p0);
            let p4 = unsafe { &mut *(va as *mut PageTable) };
            let mut mp = unsafe { OffsetPageTable::new(p4, VirtAddr::new(WINDOW_BASE - p0)) };
            run_ops(&mut ctx, &mut mp, case, enabled)
        }
        Backend::Recursive => {
            // install the recursive slot and the emulated CR3
            let raw = p4_frame | P | W;
            m.write(p4_frame, rec as usize, raw);
            model.root.e.insert(rec, Entry::Reserved(raw));
            ctx.model = model.clone();
            cpu().set_cr(3, p4_frame | (case.cr3_low as u64 & 0xfff));
            m.mmu_enable(rec);
            let r = rec as u64;
            let va = (r << 39) | (r << 30) | (r << 21) | (r << 12);
            // new_unchecked only requires "the active level-4 table" and "the index of its recursive entry":
            // a quarter of the histories hand it the table through another alias (the harness's linear view of
            // the frame, like a kernel that reaches the root through its physical-memory mapping); the tables
            // below must still be reached through the recursive index alone
            if case.cr3_low & 0x3000 == 0x3000 {
                let p4 = unsafe { &mut *(m.frame_ptr(p4_frame) as *mut PageTable) };
                let mut mp = unsafe { RecursivePageTable::new_unchecked(p4, x86_64::structures::paging::PageTableIndex::new(rec)) };
                cpu().clear_log();
                ctx.labels.push("recursive-new_unchecked-with-level4-alias".into());
                ctx.p4_alias = true;
                let fail = run_ops(&mut ctx, &mut mp, case, enabled);
                let final_tables = ctx.model.tables().len();
                m.reset();
                cpu().reset();
                return BackendRun { results: ctx.results, fail, labels: ctx.labels, shape: ctx.shape, nontrivial: ctx.nontrivial, steps_done: ctx.step, final_tables, first_skip: ctx.first_skip };
            }
            let created = outcome(|| RecursivePageTable::new(unsafe { &mut *(va as *mut PageTable) }).map_err(|e| format!("{:?}", e)));
            match created {
                Outcome::Ret(Ok(mut mp)) => {
                    cpu().clear_log();
                    run_ops(&mut ctx, &mut mp, case, enabled)
                }
                other => Some(Fail { tag: T_C20, msg: format!("RecursivePageTable::new on a correctly set-up recursive table (index {}, CR3 {:#x}) returned {:?}", rec, cpu().cr[3], other.ret().map(|r| r.err())) }),
            }
        }
    };
    let final_tables = ctx.model.tables().len();
    m.reset();
    cpu().reset();
    BackendRun { results: ctx.results, fail, labels: ctx.labels, shape: ctx.shape, nontrivial: ctx.nontrivial, steps_done: ctx.step, final_tables, first_skip: ctx.first_skip }
}

/// access to the mapper's own view of its level-4 table
pub trait Level4 {
    fn l4(&self) -> &PageTable;
    fn l4_mut(&mut self) -> &mut PageTable;
}
impl<'a> Level4 for MappedPageTable<'a, LogMapping> {
    fn l4(&self) -> &PageTable {
        self.level_4_table()
    }
    fn l4_mut(&mut self) -> &mut PageTable {
        self.level_4_table_mut()
    }
}
impl<'a> Level4 for OffsetPageTable<'a> {
    fn l4(&self) -> &PageTable {
        self.level_4_table()
    }
    fn l4_mut(&mut self) -> &mut PageTable {
        self.level_4_table_mut()
    }
}
impl<'a> Level4 for RecursivePageTable<'a> {
    fn l4(&self) -> &PageTable {
        self.level_4_table()
    }
    fn l4_mut(&mut self) -> &mut PageTable {
        self.level_4_table_mut()
    }
}

fn run_ops<M>(ctx: &mut Ctx, mp: &mut M, case: &MapCase, enabled: u32) -> Option<Fail>
where
    M: Mapper<Size4KiB> + Mapper<Size2MiB> + Mapper<Size1GiB> + Translate + CleanUp + Level4,
{
    let mut had_huge_map = false;
    let mut foreign: Option<Fail> = None;
    for (i, op) in case.ops.iter().enumerate() {
        ctx.step = i;
        if ctx.degraded {
            if let Err(f) = degraded_step(ctx, mp, op) {
                return Some(f);
            }
            continue;
        }
        // probes: a rotating subset through the crate, raw walker on all
        if let Err(mut f) = step(ctx, mp, op).and_then(|_| probe_step(ctx, mp, i, false)) {
            if ctx.backend == Backend::Recursive && f.msg.contains("UNEXPECTED-FAULT signal=11") {
                // the recursive mapper dereferenced an address that is not served by the recursive region of its
                // index at all: whatever it wanted to reach, the address was not the index-repetition one (C20),
                // and the memory behind it is not page-table memory (C09)
                f.tag |= T_C20 | T_C09;
                f.msg.push_str(" [the faulting address is not a recursive address of index ");
                f.msg.push_str(&ctx.rec.to_string());
                f.msg.push(']');
            }
            if enabled & T_C09 != 0 && f.tag != 0 && f.tag & enabled == 0 {
                // a C09 run does not stop at another property's finding: what the remaining calls
                // touch is still decided (by the model-independent oracles only)
                ctx.degraded = true;
                ctx.labels.push("continued-after-foreign-oracle-failure".into());
                foreign = Some(f);
                continue;
            }
            return Some(f);
        }
        if let Some((0, 0, _)) | Some((1, 0, _)) = ctx.shape.last() {
            if let MOp::Map { sz, .. } | MOp::IdentityMap { sz, .. } = op {
                if *sz % 3 != 0 {
                    had_huge_map = true;
                }
            }
        }
        if had_huge_map && ctx.shape.last().map(|s| s.2 == 1).unwrap_or(false) {
            ctx.nontrivial |= T_C01;
        }
    }
    if foreign.is_some() {
        return foreign;
    }
    ctx.step = case.ops.len();
    if let Err(f) = probe_step(ctx, mp, 0, true) {
        return Some(f);
    }
    // the mapper's own accessors show the level-4 table the history dictates
    {
        mem().flush_tlb();
        let want = ctx.model.root.render();
        let a = mp.l4() as *const PageTable as *const u64;
        let b = mp.l4_mut() as *mut PageTable as *const u64;
        if a != b {
            return Some(Fail { tag: T_C01, msg: format!("({:?}) level_4_table() and level_4_table_mut() return different tables", ctx.backend) });
        }
        for i in 0..512 {
            let got = unsafe { core::ptr::read_volatile(a.add(i)) };
            if got != want[i] {
                return Some(Fail { tag: T_C01, msg: format!("({:?}) level_4_table()[{}] = {:#x}, the history dictates {:#x}", ctx.backend, i, got, want[i]) });
            }
        }
        mem().log.clear();
    }
    let _ = enabled;
    None
}

fn probe_step<M>(ctx: &mut Ctx, mp: &mut M, i: usize, full: bool) -> Result<(), Fail>
where
    M: Mapper<Size4KiB> + Mapper<Size2MiB> + Mapper<Size1GiB> + Translate,
{
    // model vs independent hardware walk of raw memory: all probes, every step
    let probes = ctx.probes.clone();
    for a in &probes {
        let want = ctx.model.translate(*a);
        let got = model::hw_translate(mem(), ctx.p4_frame, *a);
        if want != got {
            fail!(T_C01, "step {} ({:?}): hardware walk of the raw tables translates {:#x} to {:x?}, the history of calls dictates {:x?}", ctx.step, ctx.backend, a, got, want);
        }
    }
    // through the crate: rotating subset (all at the end)
    let n = probes.len();
    if n == 0 {
        return Ok(());
    }
    let count = if full { n } else { 3 };
    for k in 0..count {
        let a = probes[(i * 3 + k) % n];
        mem().log.clear();
        mem().flush_tlb();
        let tb = ctx.model.table_frames();
        let mut primary: Result<(), Fail> = translate_check(ctx, mp, a).map(|_| ());
        if primary.is_ok() && (full || k == 0) {
            for lvl in 1..=3u8 {
                primary = translate_page_check(ctx, mp, a & !(model::size_of_level(lvl) - 1), lvl).map(|_| ());
                if primary.is_err() {
                    break;
                }
            }
        }
        // reading translations must not modify anything and must stay inside the tables
        let secondary = ctx.check_access_log(&tb, None);
        match (primary, secondary) {
            (Ok(()), s) => s?,
            (Err(f), Err(g)) if f.tag & ctx.enabled == 0 && g.tag & ctx.enabled != 0 => return Err(g),
            (Err(f), _) => return Err(f),
        }
    }
    if full {
        ctx.check_memory(false, &BTreeSet::new())?;
    }
    Ok(())
}

/// Run one case on all three backends and compare them with each other.
pub fn run_case(case: &MapCase, enabled: u32, obs: &mut Obs) -> CaseResult {
    let mut runs = vec![];
    for b in [Backend::Mapped, Backend::Offset, Backend::Recursive] {
        let r = run_backend(case, b, enabled);
        runs.push((b, r));
    }
    let mut stopped = false;
    for (b, r) in &runs {
        if let Some(f) = &r.fail {
            if f.tag == 0 {
                obs.label(format!("inconclusive:{}", f.msg.chars().take(40).collect::<String>()));
                stopped = true;
            } else if f.tag & enabled != 0 {
                return Err(format!("[{}] {}", tag_name(lowest(f.tag & enabled)), f.msg));
            } else {
                obs.label(format!("history-stopped-by-{}-oracle-on-{:?}", tag_name(lowest(f.tag)), b));
                stopped = true;
            }
        }
    }
    // identical results across implementations (same history, same allocator decisions)
    if !stopped && enabled & T_C02 != 0 {
        let (a, b, c) = (&runs[0].1, &runs[1].1, &runs[2].1);
        let am: BTreeMap<usize, &String> = a.results.iter().map(|(i, s)| (*i, s)).collect();
        // a call skipped on one implementation (page under the recursive slot, no usable frame) makes
        // the later states incomparable: compare only the steps before the first skip anywhere
        let limit = [a.first_skip, b.first_skip, c.first_skip].iter().filter_map(|x| *x).min().unwrap_or(usize::MAX);
        for (other, name) in [(b, "OffsetPageTable"), (c, "RecursivePageTable")] {
            for (i, r) in other.results.iter().filter(|(i, _)| *i < limit) {
                if let Some(ra) = am.get(i) {
                    if *ra != r {
                        return Err(format!("[C02] op #{} {:?}: MappedPageTable returned {} but {} returned {}", i, case.ops.get(*i), ra, name, r));
                    }
                }
            }
        }
    }
    let a = &runs[0].1;
    obs.add_evals((3 * case.ops.len()) as u64);
    let ex = EXCLUDED_PAT.with(|c| c.replace(0));
    if ex > 0 {
        obs.exclude("C01-huge-leaf-with-PAT-bit-cannot-be-unmapped");
    }
    for (i, r) in a.results.iter().take(16) {
        let i = *i;
        obs.notes.push(format!("#{} {:?} -> {}", i, case.ops.get(i).map(|o| format!("{:?}", o)).unwrap_or_default().chars().take(60).collect::<String>(), r.chars().take(80).collect::<String>()));
    }
    for (b, r) in &runs {
        for l in &r.labels {
            obs.label(format!("{:?}:{}", b, l));
        }
    }
    let nt = runs.iter().fold(0, |x, (_, r)| x | r.nontrivial);
    if nt & enabled != 0 || (enabled & (T_C01 | T_C11) != 0 && nt & T_C01 != 0) {
        obs.nontrivial(&a.shape);
    }
    obs.label(format!("tables-at-end:{}", a.final_tables.min(9)));
    Ok(())
}


/// C02: run the history under every allocator failure schedule (none, fail 1st, 2nd, 3rd, all) of
/// one chosen allocating call ("fault enumeration inside an exploration").
pub fn run_case_all_schedules(case: &MapCase, which: u16, enabled: u32, obs: &mut Obs) -> CaseResult {
    let idxs: Vec<usize> = case.ops.iter().enumerate().filter(|(_, o)| matches!(o, MOp::Map { .. } | MOp::IdentityMap { .. })).map(|(i, _)| i).collect();
    if idxs.is_empty() {
        return run_case(case, enabled, obs);
    }
    let k = idxs[pick(which, idxs.len())];
    for fail in 0u8..=4 {
        let mut c = case.clone();
        match &mut c.ops[k] {
            MOp::Map { fail: f, .. } | MOp::IdentityMap { fail: f, .. } => *f = fail,
            _ => {}
        }
        let mut o = Obs::default();
        run_case(&c, enabled, &mut o).map_err(|m| format!("(schedule {} at op #{}) {}", fail, k, m))?;
        obs.labels.extend(o.labels);
        obs.nontrivial.extend(o.nontrivial);
        obs.evals += o.evals;
    }
    obs.label("schedules-enumerated");
    Ok(())
}
