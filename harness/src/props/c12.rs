//! C12 — IDT entries sit where the CPU looks and encode the architectural gate format.
use crate::engine::{outcome, CaseResult, Obs, Outcome, Run};
use crate::gen::*;
use crate::umh::{self, cpu, Op};
use crate::{ensure, ensure_eq};
use proptest::prelude::*;
use serde::{Deserialize, Serialize};
use std::ops::Bound;
use x86_64::structures::idt::{Entry, EntryOptions, HandlerFunc, InterruptDescriptorTable};
use x86_64::{PrivilegeLevel, VirtAddr};

/// vectors for which `idt[v]` must panic: reserved, error-code signature, or diverging
pub fn index_refused(v: u8) -> bool {
    matches!(v, 8 | 10..=15 | 17 | 18 | 21..=27 | 29..=31)
}

fn table_base(idt: &InterruptDescriptorTable) -> usize {
    idt as *const _ as usize
}

/// independent table: field name -> vector (Intel SDM vol.3 table 6-1 / AMD APM vol.2 table 8-1)
macro_rules! named_offsets {
    ($idt:expr, $($name:ident = $v:expr),* $(,)?) => {
        vec![$((stringify!($name), $v as usize, core::ptr::addr_of!($idt.$name) as usize - table_base(&$idt))),*]
    };
}

fn offsets_case(_: &u8, obs: &mut Obs) -> CaseResult {
    let idt = Box::new(InterruptDescriptorTable::new());
    ensure_eq!(core::mem::size_of::<InterruptDescriptorTable>(), 4096usize, "size of the IDT");
    ensure_eq!(table_base(&idt) % 16, 0usize, "IDT alignment");
    ensure_eq!(core::mem::size_of::<Entry<HandlerFunc>>(), 16usize, "size of an entry");
    let named = named_offsets!(idt,
        divide_error = 0, debug = 1, non_maskable_interrupt = 2, breakpoint = 3, overflow = 4,
        bound_range_exceeded = 5, invalid_opcode = 6, device_not_available = 7, double_fault = 8,
        invalid_tss = 10, segment_not_present = 11, stack_segment_fault = 12, general_protection_fault = 13,
        page_fault = 14, x87_floating_point = 16, alignment_check = 17, machine_check = 18,
        simd_floating_point = 19, virtualization = 20, cp_protection_exception = 21,
        hv_injection_exception = 28, vmm_communication_exception = 29, security_exception = 30,
    );
    for (name, v, off) in named {
        ensure_eq!(off, 16 * v, "field {} (vector {}) byte offset", name, v);
        obs.nontrivial(&("field", v));
    }
    for v in 0u16..256 {
        let v = v as u8;
        let r = outcome(|| &idt[v] as *const Entry<HandlerFunc> as usize - table_base(&idt));
        match (r, index_refused(v)) {
            (Outcome::Ret(off), false) => ensure_eq!(off, 16 * v as usize, "idt[{}] byte offset", v),
            (Outcome::Panic(_), true) => {}
            (r, refused) => return Err(format!("idt[{}]: must be refused = {}, got {:?}", v, refused, r)),
        }
        let mut m = idt.clone();
        let base = &*m as *const _ as usize;
        let r = outcome(|| &mut m[v] as *mut Entry<HandlerFunc> as usize - base);
        match (r, index_refused(v)) {
            (Outcome::Ret(off), false) => ensure_eq!(off, 16 * v as usize, "idt[{}] (mut) byte offset", v),
            (Outcome::Panic(_), true) => {}
            (r, refused) => return Err(format!("idt[{}] (mut): must be refused = {}, got {:?}", v, refused, r)),
        }
        obs.nontrivial(&("index", v));
    }
    obs.add_evals(256 * 2 + 23);
    Ok(())
}

/// Result of a range access: (byte offset of the slice start, length) or panic.
fn slice_info(idt: &InterruptDescriptorTable, s: &[Entry<HandlerFunc>]) -> (usize, usize) {
    (s.as_ptr() as usize - table_base(idt), s.len())
}

pub const FORMS: usize = 13 + 8; // 13 Index forms (Bound pairs in 2 reference flavours x kinds) + slice()/slice_mut()

fn range_form(idt: &mut InterruptDescriptorTable, form: usize, a: u8, b: u8) -> (Outcome<(usize, usize)>, usize, usize, bool) {
    // returns (outcome, effective lower, effective upper (exclusive), uses_a/b)
    use Bound::*;
    let (lo, hi): (usize, usize);
    let o = match form {
        0 => { lo = a as usize; hi = b as usize; outcome(|| slice_info(idt, &idt[a..b])) }
        1 => { lo = a as usize; hi = b as usize; outcome(|| slice_info(idt, &idt[&a..&b])) }
        2 => { lo = a as usize; hi = b as usize + 1; outcome(|| slice_info(idt, &idt[a..=b])) }
        3 => { lo = a as usize; hi = b as usize + 1; outcome(|| slice_info(idt, &idt[&a..=&b])) }
        4 => { lo = a as usize; hi = 256; outcome(|| slice_info(idt, &idt[a..])) }
        5 => { lo = a as usize; hi = 256; outcome(|| slice_info(idt, &idt[&a..])) }
        6 => { lo = 0; hi = b as usize; outcome(|| slice_info(idt, &idt[..b])) }
        7 => { lo = 0; hi = b as usize; outcome(|| slice_info(idt, &idt[..&b])) }
        8 => { lo = 0; hi = b as usize + 1; outcome(|| slice_info(idt, &idt[..=b])) }
        9 => { lo = 0; hi = b as usize + 1; outcome(|| slice_info(idt, &idt[..=&b])) }
        10 => { lo = 0; hi = 256; outcome(|| slice_info(idt, &idt[..])) }
        11 => { lo = a as usize + 1; hi = b as usize; outcome(|| slice_info(idt, &idt[(Excluded(a), Excluded(b))])) }
        12 => { lo = a as usize + 1; hi = b as usize + 1; outcome(|| slice_info(idt, &idt[(Excluded(&a), Included(&b))])) }
        13 => { lo = a as usize; hi = 256; outcome(|| slice_info(idt, &idt[(Included(a), Unbounded)])) }
        14 => { lo = 0; hi = b as usize + 1; outcome(|| slice_info(idt, &idt[(Unbounded, Included(&b))])) }
        15 => { lo = a as usize; hi = b as usize + 1; outcome(|| slice_info(idt, idt.slice(a..=b))) }
        16 => { lo = a as usize; hi = b as usize; outcome(|| slice_info(idt, idt.slice(a..b))) }
        17 => { lo = a as usize; hi = b as usize + 1; outcome(|| { let base = table_base(idt); let s = idt.slice_mut(a..=b); (s.as_ptr() as usize - base, s.len()) }) }
        18 => { lo = a as usize; hi = b as usize; outcome(|| { let base = table_base(idt); let s = &mut idt[a..b]; (s.as_ptr() as usize - base, s.len()) }) }
        19 => { lo = a as usize; hi = 256; outcome(|| { let base = table_base(idt); let s = &mut idt[a..]; (s.as_ptr() as usize - base, s.len()) }) }
        _ => { lo = a as usize + 1; hi = 256; outcome(|| slice_info(idt, &idt[(Excluded(a), Unbounded)])) }
    };
    let depends_on_both = matches!(form, 0 | 1 | 2 | 3 | 11 | 12 | 15 | 16 | 17 | 18);
    (o, lo, hi, depends_on_both)
}

fn ranges_case(c: &(u8, u8), obs: &mut Obs) -> CaseResult {
    // one start value per case; all 256 end values x all forms inside
    let (a, _) = *c;
    let mut idt = Box::new(InterruptDescriptorTable::new());
    let mut evals = 0u64;
    for b in 0u16..256 {
        let b = b as u8;
        for form in 0..FORMS {
            let (o, lo, hi, both) = range_form(&mut idt, form, a, b);
            if !both && b != 0 && matches!(form, 4 | 5 | 10 | 13 | 19 | 20) {
                continue; // forms that ignore b: evaluate once per a
            }
            evals += 1;
            let what = format!("range form {} with a={} b={} (effective {}..{})", form, a, b, lo, hi);
            if lo < 32 {
                ensure!(o.is_panic(), "{}: a range starting below vector 32 must be refused, got {:?}", what, o);
                continue;
            }
            if lo > hi {
                // start after end: a panic or an empty in-table slice are both acceptable
                if let Outcome::Ret((off, len)) = o {
                    ensure!(len == 0 && off <= 4096, "{}: inverted range gave offset {} len {}", what, off, len);
                }
                continue;
            }
            if lo > 256 || hi > 256 {
                continue; // not expressible
            }
            match o {
                Outcome::Ret((off, len)) => {
                    ensure_eq!(off, 16 * lo, "{}: byte offset of the slice", what);
                    ensure_eq!(len, hi - lo, "{}: slice length", what);
                }
                Outcome::Panic(m) => return Err(format!("{}: panicked: {}", what, m)),
            }
        }
    }
    obs.add_evals(evals);
    obs.nontrivial(&a);
    if a < 32 {
        obs.label("start-below-32");
    }
    Ok(())
}

// ---- gate format ----------------------------------------------------------------------------------

#[derive(Debug, Clone, Serialize, Deserialize)]
pub enum Setter {
    Present(bool),
    DisableInterrupts(bool),
    Privilege(u8),
    StackIndex(u16),
    CodeSelector(u16),
}

fn setter() -> impl Strategy<Value = Setter> {
    prop_oneof![
        any::<bool>().prop_map(Setter::Present),
        any::<bool>().prop_map(Setter::DisableInterrupts),
        (0u8..4).prop_map(Setter::Privilege),
        (0u16..7).prop_map(Setter::StackIndex),
        any::<u16>().prop_map(Setter::CodeSelector),
    ]
}

#[derive(Debug, Clone, Copy, PartialEq)]
struct Gate {
    offset: u64,
    selector: u16,
    ist: u8,
    zero1: u8,
    typ: u8,
    zero2: u8,
    dpl: u8,
    present: bool,
    reserved: u32,
}

/// Independent decoder of a 16-byte 64-bit interrupt/trap gate (SDM vol.3 fig. 6-8).
fn decode(raw: &[u8; 16]) -> Gate {
    let lo = u16::from_le_bytes([raw[0], raw[1]]) as u64;
    let mid = u16::from_le_bytes([raw[6], raw[7]]) as u64;
    let hi = u32::from_le_bytes([raw[8], raw[9], raw[10], raw[11]]) as u64;
    Gate {
        offset: lo | (mid << 16) | (hi << 32),
        selector: u16::from_le_bytes([raw[2], raw[3]]),
        ist: raw[4] & 7,
        zero1: raw[4] >> 3,
        typ: raw[5] & 0xf,
        zero2: (raw[5] >> 4) & 1,
        dpl: (raw[5] >> 5) & 3,
        present: raw[5] >> 7 != 0,
        reserved: u32::from_le_bytes([raw[12], raw[13], raw[14], raw[15]]),
    }
}

fn raw_entry<F>(e: &Entry<F>) -> [u8; 16] {
    assert_eq!(core::mem::size_of::<Entry<F>>(), 16);
    unsafe { *(e as *const Entry<F> as *const [u8; 16]) }
}

fn gate_case(c: &(u64, Vec<Setter>, u8), obs: &mut Obs) -> CaseResult {
    let (addr, prog, vec_sel) = c;
    let (cs, _) = crate::deliver::native_cs_ss();
    let mut idt = Box::new(InterruptDescriptorTable::new());
    // untouched entries: non-present interrupt gates with the must-be-one bits and nothing else
    let missing = Gate { offset: 0, selector: 0, ist: 0, zero1: 0, typ: 0xE, zero2: 0, dpl: 0, present: false, reserved: 0 };
    ensure_eq!(decode(&raw_entry(&Entry::<HandlerFunc>::missing())), missing, "Entry::missing()");
    let bytes = unsafe { &*(&*idt as *const _ as *const [[u8; 16]; 256]) };
    for v in 0..256 {
        ensure_eq!(decode(&bytes[v]), missing, "vector {} of InterruptDescriptorTable::new()", v);
    }
    {
        let d: Box<InterruptDescriptorTable> = Box::new(Default::default());
        let db = unsafe { &*(&*d as *const _ as *const [[u8; 16]; 256]) };
        ensure!(db == bytes, "InterruptDescriptorTable::default() differs from new()");
    }
    // pick an entry: a general one or a typed exception field
    let v = 32 + (*vec_sel as usize % 224);
    let mut model = missing;
    {
        let e: &mut Entry<HandlerFunc> = &mut idt[v as u8];
        let opts: &mut EntryOptions = unsafe { e.set_handler_addr(VirtAddr::new(*addr)) };
        model = Gate { offset: *addr, selector: cs, typ: 0xE, present: true, ..model };
        let _ = opts;
    }
    ensure_eq!(decode(&raw_entry(&idt[v as u8])), model, "after set_handler_addr({:#x})", addr);
    ensure_eq!(idt[v as u8].handler_addr().as_u64(), *addr, "handler_addr() reads back");
    let mut fields = std::collections::BTreeSet::new();
    // run the whole program inside one borrow of the options
    {
        let e: &mut Entry<HandlerFunc> = &mut idt[v as u8];
        let eptr = e as *const Entry<HandlerFunc>;
        let opts: &mut EntryOptions = unsafe { e.set_handler_addr(VirtAddr::new(*addr)) };
        for (i, s) in prog.iter().enumerate() {
            match s {
                Setter::Present(p) => {
                    opts.set_present(*p);
                    model.present = *p;
                    fields.insert(0);
                }
                Setter::DisableInterrupts(d) => {
                    opts.disable_interrupts(*d);
                    model.typ = if *d { 0xE } else { 0xF };
                    fields.insert(1);
                }
                Setter::Privilege(d) => {
                    let lvl = [PrivilegeLevel::Ring0, PrivilegeLevel::Ring1, PrivilegeLevel::Ring2, PrivilegeLevel::Ring3][(*d % 4) as usize];
                    opts.set_privilege_level(lvl);
                    model.dpl = *d % 4;
                    fields.insert(2);
                }
                Setter::StackIndex(ix) => {
                    unsafe { opts.set_stack_index(*ix % 7) };
                    model.ist = (*ix % 7) as u8 + 1;
                    fields.insert(3);
                }
                Setter::CodeSelector(sel) => {
                    unsafe { opts.set_code_selector(x86_64::registers::segmentation::SegmentSelector(*sel)) };
                    model.selector = *sel;
                    fields.insert(4);
                }
            }
            let raw = unsafe { *(eptr as *const [u8; 16]) };
            ensure_eq!(decode(&raw), model, "after step {} {:?} (each setter changes only its own field)", i, s);
        }
    }
    ensure_eq!(idt[v as u8].handler_addr().as_u64(), *addr, "handler_addr() unchanged by option setters");
    // giving the entry a handler address again resets every option to the documented defaults
    // (present, interrupt gate, ring 0, no stack switch, current code segment)
    let addr2 = addr ^ 0x0000_0000_00ff_f000;
    {
        let e: &mut Entry<HandlerFunc> = &mut idt[v as u8];
        unsafe { e.set_handler_addr(VirtAddr::new(addr2)) };
    }
    let fresh = Gate { offset: addr2, selector: cs, ist: 0, zero1: 0, typ: 0xE, zero2: 0, dpl: 0, present: true, reserved: 0 };
    ensure_eq!(decode(&raw_entry(&idt[v as u8])), fresh, "set_handler_addr({:#x}) on an entry whose options had been changed by {:?}", addr2, prog);
    // all other entries untouched
    let bytes = unsafe { &*(&*idt as *const _ as *const [[u8; 16]; 256]) };
    for k in 0..256 {
        if k != v {
            ensure_eq!(decode(&bytes[k]), missing, "vector {} must be untouched", k);
        }
    }
    // reset: every one of the 256 entries becomes a missing gate again, whatever it held (all entries
    // are first overwritten with present gates through the raw bytes)
    {
        let filled = raw_entry(&idt[v as u8]);
        let raw_mut = unsafe { &mut *(&mut *idt as *mut _ as *mut [[u8; 16]; 256]) };
        for k in 0..256 {
            raw_mut[k] = filled;
        }
    }
    idt.reset();
    let bytes = unsafe { &*(&*idt as *const _ as *const [[u8; 16]; 256]) };
    for k in 0..256 {
        ensure_eq!(decode(&bytes[k]), missing, "vector {} after reset() of a table whose 256 entries all held a present gate", k);
    }
    obs.add_evals(prog.len() as u64 + 1);
    if fields.len() >= 3 {
        let shape: Vec<u8> = prog
            .iter()
            .map(|s| match s {
                Setter::Present(_) => 0u8,
                Setter::DisableInterrupts(_) => 1,
                Setter::Privilege(_) => 2,
                Setter::StackIndex(_) => 3,
                Setter::CodeSelector(_) => 4,
            })
            .collect();
        obs.nontrivial(&(shape, addr >> 47, model.ist, model.dpl, model.present, model.typ));
    }
    Ok(())
}

/// typed exception fields get the same encoding through set_handler_addr
fn typed_fields_case(addr: &u64, obs: &mut Obs) -> CaseResult {
    let (cs, _) = crate::deliver::native_cs_ss();
    let mut idt = Box::new(InterruptDescriptorTable::new());
    let a = VirtAddr::new(*addr);
    macro_rules! chk {
        ($field:ident, $v:expr) => {{
            unsafe { idt.$field.set_handler_addr(a) };
            let bytes = unsafe { &*(&*idt as *const _ as *const [[u8; 16]; 256]) };
            let g = decode(&bytes[$v]);
            ensure_eq!(g, Gate { offset: *addr, selector: cs, ist: 0, zero1: 0, typ: 0xE, zero2: 0, dpl: 0, present: true, reserved: 0 }, "{} (vector {})", stringify!($field), $v);
            ensure_eq!(idt.$field.handler_addr().as_u64(), *addr, "handler_addr of {}", stringify!($field));
        }};
    }
    chk!(divide_error, 0);
    chk!(double_fault, 8);
    chk!(invalid_tss, 10);
    chk!(general_protection_fault, 13);
    chk!(page_fault, 14);
    chk!(machine_check, 18);
    chk!(cp_protection_exception, 21);
    chk!(security_exception, 30);
    if addr >> 47 != 0 {
        obs.nontrivial(addr);
    }
    Ok(())
}

extern "x86-interrupt" fn h_plain(_f: x86_64::structures::idt::InterruptStackFrame) {}
extern "x86-interrupt" fn h_err(_f: x86_64::structures::idt::InterruptStackFrame, _e: u64) {}
extern "x86-interrupt" fn h_pf(_f: x86_64::structures::idt::InterruptStackFrame, _e: x86_64::structures::idt::PageFaultErrorCode) {}
extern "x86-interrupt" fn h_div(_f: x86_64::structures::idt::InterruptStackFrame) -> ! {
    loop {}
}
extern "x86-interrupt" fn h_div_err(_f: x86_64::structures::idt::InterruptStackFrame, _e: u64) -> ! {
    loop {}
}

/// set_handler_fn for each of the five handler signatures stores the function's own address
fn handler_fn_case(_: &u8, obs: &mut Obs) -> CaseResult {
    let (cs, _) = crate::deliver::native_cs_ss();
    let mut idt = Box::new(InterruptDescriptorTable::new());
    idt.breakpoint.set_handler_fn(h_plain);
    idt[77].set_handler_fn(h_plain);
    idt.general_protection_fault.set_handler_fn(h_err);
    idt.page_fault.set_handler_fn(h_pf);
    idt.machine_check.set_handler_fn(h_div);
    idt.double_fault.set_handler_fn(h_div_err);
    let bytes = unsafe { &*(&*idt as *const _ as *const [[u8; 16]; 256]) };
    for (v, addr) in [(3usize, h_plain as usize as u64), (77, h_plain as usize as u64), (13, h_err as usize as u64), (14, h_pf as usize as u64), (18, h_div as usize as u64), (8, h_div_err as usize as u64)] {
        let g = decode(&bytes[v]);
        ensure_eq!(g, Gate { offset: addr, selector: cs, ist: 0, zero1: 0, typ: 0xE, zero2: 0, dpl: 0, present: true, reserved: 0 }, "set_handler_fn on vector {}", v);
        obs.nontrivial(&v);
    }
    ensure_eq!(idt.breakpoint.handler_addr().as_u64(), h_plain as usize as u64, "handler_addr() after set_handler_fn");
    Ok(())
}

fn load_case(_: &u8, obs: &mut Obs) -> CaseResult {
    let idt = Box::new(InterruptDescriptorTable::new());
    let cp = cpu();
    cp.reset();
    unsafe { idt.load_unsafe() };
    let log = cp.take_log();
    ensure!(log.len() == 1 && log[0].op == Op::Lidt, "load_unsafe() executed {:x?}", log);
    ensure_eq!(log[0].b, 4095u64, "lidt limit");
    ensure_eq!(log[0].c, &*idt as *const _ as u64, "lidt base = address of the table");
    // load() on a 'static table
    let st: &'static InterruptDescriptorTable = Box::leak(Box::new(InterruptDescriptorTable::new()));
    st.load();
    let log = cp.take_log();
    ensure!(log.len() == 1 && log[0].op == Op::Lidt, "load() executed {:x?}", log);
    ensure_eq!((log[0].b, log[0].c), (4095u64, st as *const _ as u64), "lidt operand of load()");
    // the pointer structure itself: 16-bit limit then 64-bit base, 10 bytes
    ensure_eq!(core::mem::size_of::<x86_64::structures::DescriptorTablePointer>(), 10usize, "DescriptorTablePointer size");
    cp.reset();
    obs.nontrivial(&1u8);
    obs.nontrivial(&2u8);
    Ok(())
}

pub fn run(run: &mut Run) {
    umh::install();
    run.assume("lidt executed in ring 3 traps; its 10-byte operand is read by the harness decoder. The gate decoder is written from SDM vol.3 figure 6-8");
    run.exhaustive(
        "offsets",
        "all 23 named exception fields (independent name->vector table) and all 256 vectors through Index<u8>/IndexMut<u8>: byte offset from the table start = 16*v; indexing panics exactly for {8,10-15,17,18,21-27,29-31}",
        0u8..1,
        offsets_case,
    );
    // all 65536 (start,end) pairs: one case per start value; distributed over the workers
    let (w, ws) = (run.worker, run.workers);
    let starts: Vec<(u8, u8)> = (0u16..256).filter(|a| (*a as u32) % ws == w).map(|a| (a as u8, 0u8)).collect();
    let keep = run.worker;
    run.worker = 0;
    run.exhaustive(
        "ranges",
        "all 65536 (start,end) u8 pairs x 21 access forms (a..b, &a..&b, a..=b, &a..=&b, a.., &a.., ..b, ..&b, ..=b, ..=&b, .., five (Bound,Bound) combinations by value and by reference, slice(), slice_mut(), IndexMut ranges): refused (panic) iff the effective start is below 32; otherwise pointer = table + 16*start and length end-start; inverted ranges may panic or be empty; one case per start value, each worker a residue class",
        starts,
        ranges_case,
    );
    run.worker = keep;
    let n = run.cases(150_000, 6_000_000);
    run.sub(
        "gate",
        "canonical handler addresses x setter programs (0..12 steps over set_present, disable_interrupts, set_privilege_level 0..=3, set_stack_index 0..=6, set_code_selector u16) on a generated vector >= 32; oracle: independent 16-byte gate decoder: after set_handler_addr offset = address, selector = current CS, type 0xE, DPL 0, P=1, IST 0, zero bits zero; each setter changes exactly its field (IST = index+1, type 0xE/0xF); handler_addr() unchanged; all other 255 entries and new()/missing()/reset() are non-present 0xE gates; non-trivial = program touching >= 3 different fields; distinct by (setter sequence, final fields)",
        n,
        (canon_va(), proptest::collection::vec(setter(), 0..12), any::<u8>()),
        gate_case,
    );
    let n = run.cases(20_000, 800_000);
    run.sub(
        "typed_fields",
        "set_handler_addr on the typed exception fields (divide_error, double_fault, invalid_tss, general_protection_fault, page_fault, machine_check, cp_protection_exception, security_exception): the entry at 16*vector decodes to the gate; non-trivial = upper-half address",
        n,
        canon_va(),
        typed_fields_case,
    );
    run.exhaustive(
        "handler_fn",
        "set_handler_fn with functions of the five handler signatures (plain, error code, page fault, diverging, diverging with error code): the gate at 16*vector encodes the function's own address with the documented defaults",
        0u8..1,
        handler_fn_case,
    );
    run.exhaustive(
        "load",
        "load()/load_unsafe(): exactly one trapped lidt whose operand is (limit 4095, base = address of the table)",
        0u8..1,
        load_case,
    );
}
