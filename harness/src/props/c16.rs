//! C16 — system-register wrappers hit the right register and never lose bits.
//!
//! Every wrapper is executed through its real inline assembly; the privileged instruction traps
//! (umh.rs) and is applied to an emulated register file. The oracle compares the trap log (which
//! architectural register, which value, how many writes) and the returned values with a model written
//! from the manuals: register numbers / MSR indices / modelled-bit masks below are typed in
//! independently of the crate.
use crate::engine::{outcome, CaseResult, Obs, Outcome, Run};
use crate::gen::*;
use crate::umh::{self, cpu, Op, Trap};
use crate::{ensure, ensure_eq};
use proptest::prelude::*;
use x86_64::instructions::tlb::Pcid;
use x86_64::registers::control::{Cr0, Cr0Flags, Cr2, Cr3, Cr3Flags, Cr4, Cr4Flags};
use x86_64::registers::debug::{DebugAddressRegister, Dr0, Dr1, Dr2, Dr3, Dr6, Dr7, Dr7Value};
use x86_64::registers::model_specific::{
    ApicBase, ApicBaseFlags, CetFlags, Efer, EferFlags, FsBase, GsBase, KernelGsBase, LStar, Msr, Pat, PatMemoryType,
    SCet, SFMask, Star, UCet,
};
use x86_64::registers::rflags::RFlags;
use x86_64::registers::segmentation::{Segment, Segment64, SegmentSelector, CS, DS, ES, FS, GS, SS};
use x86_64::registers::xcontrol::{XCr0, XCr0Flags};
use x86_64::structures::paging::{Page, PhysFrame, Size4KiB};
use x86_64::{PhysAddr, VirtAddr};

// ---- independent architectural tables -----------------------------------------------------------
const fn bits(list: &[u32]) -> u64 {
    let mut m = 0u64;
    let mut i = 0;
    while i < list.len() {
        m |= 1u64 << list[i];
        i += 1;
    }
    m
}
pub const CR0_MODELLED: u64 = bits(&[0, 1, 2, 3, 4, 5, 16, 18, 29, 30, 31]);
pub const CR4_MODELLED: u64 = bits(&[0, 1, 2, 3, 4, 5, 6, 7, 8, 9, 10, 11, 12, 13, 14, 16, 17, 18, 19, 20, 21, 22, 23, 24]);
pub const EFER_MODELLED: u64 = bits(&[0, 8, 10, 11, 12, 13, 14, 15]);
pub const XCR0_MODELLED: u64 = bits(&[0, 1, 2, 3, 4, 5, 6, 7, 9, 62]);
pub const DR7_MODELLED: u64 = bits(&[0, 1, 2, 3, 4, 5, 6, 7, 8, 9, 11, 13]) | 0xffff_0000;
pub const RFLAGS_MODELLED: u64 = bits(&[0, 2, 4, 6, 7, 8, 9, 10, 11, 12, 13, 14, 16, 17, 18, 19, 20, 21]);
pub const CET_FLAGS: u64 = bits(&[0, 1, 2, 3, 4, 5, 10, 11]);
pub const APIC_FLAGS: u64 = bits(&[8, 10, 11]);
pub const ADDR_BITS: u64 = 0x000f_ffff_ffff_f000;

pub const MSR_EFER: u32 = 0xC000_0080;
pub const MSR_STAR: u32 = 0xC000_0081;
pub const MSR_LSTAR: u32 = 0xC000_0082;
pub const MSR_SFMASK: u32 = 0xC000_0084;
pub const MSR_FS_BASE: u32 = 0xC000_0100;
pub const MSR_GS_BASE: u32 = 0xC000_0101;
pub const MSR_KERNEL_GS_BASE: u32 = 0xC000_0102;
pub const MSR_U_CET: u32 = 0x6A0;
pub const MSR_S_CET: u32 = 0x6A2;
pub const MSR_PAT: u32 = 0x277;
pub const MSR_APIC_BASE: u32 = 0x1B;

#[derive(Clone, Copy, Debug, PartialEq)]
pub enum Reg {
    Cr(u8),
    Dr(u8),
    Msr(u32),
    Xcr0,
}

fn set_prior(r: Reg, v: u64) {
    let c = cpu();
    match r {
        Reg::Cr(n) => c.set_cr(n, v),
        Reg::Dr(n) => c.set_dr(n, v),
        Reg::Msr(i) => c.msr_set(i, v),
        Reg::Xcr0 => c.set_xcr0(v),
    }
}
fn current(r: Reg) -> u64 {
    let c = cpu();
    match r {
        Reg::Cr(n) => c.cr[n as usize],
        Reg::Dr(n) => c.dr[n as usize],
        Reg::Msr(i) => c.msr_get(i).unwrap_or(c.msr_default),
        Reg::Xcr0 => c.xcr0,
    }
}

enum Acc {
    Read,
    Write(u64),
    Other,
}
fn classify(t: &Trap, r: Reg) -> Acc {
    match (r, t.op) {
        (Reg::Cr(n), Op::MovFromCr) if t.a == n as u64 => Acc::Read,
        (Reg::Cr(n), Op::MovToCr) if t.a == n as u64 => Acc::Write(t.b),
        (Reg::Dr(n), Op::MovFromDr) if t.a == n as u64 => Acc::Read,
        (Reg::Dr(n), Op::MovToDr) if t.a == n as u64 => Acc::Write(t.b),
        (Reg::Msr(i), Op::Rdmsr) if t.a == i as u64 => Acc::Read,
        (Reg::Msr(i), Op::Wrmsr) if t.a == i as u64 => Acc::Write(t.b),
        (Reg::Xcr0, Op::Xsetbv) if t.a == 0 => Acc::Write(t.b),
        _ => Acc::Other,
    }
}

/// All trapped instructions since the last check must be accesses of `r`; the sequence of written
/// values must equal `writes` (or be empty when the register already holds that value); at least
/// `min_reads` reads.
fn check_log(what: &str, r: Reg, writes: &[u64], min_reads: usize) -> CaseResult {
    let c = cpu();
    ensure!(!cpu().log_overflow, "{}: trap log overflow", what);
    ensure!(cpu().unexpected == 0, "{}: unexpected fault", what);
    let log = c.take_log();
    let mut got_w = vec![];
    let mut reads = 0;
    for t in &log {
        match classify(t, r) {
            Acc::Read => reads += 1,
            Acc::Write(v) => got_w.push(v),
            Acc::Other => return Err(format!("{}: accessed something other than {:x?}: {:x?} (log {:x?})", what, r, t, log)),
        }
    }
    // A wrapper that has just read the register and finds that it already holds exactly the value it
    // is about to store may skip the redundant store: the register then holds what the property says
    // it must hold (no store happened, so `current(r)` is still the prior content).
    let redundant_store_skipped = got_w.is_empty() && writes.len() == 1 && current(r) == writes[0];
    ensure!(got_w == writes || redundant_store_skipped, "{}: values written to {:x?}: got {:x?}, expected {:x?}", what, r, got_w, writes);
    ensure!(reads >= min_reads, "{}: expected at least {} read(s) of {:x?}, log {:x?}", what, min_reads, r, log);
    Ok(())
}

fn begin() {
    let c = cpu();
    c.reset();
}

// ---- flag registers: Cr0, Cr4, Efer, XCr0, Dr7 ---------------------------------------------------

type FlagCase = (u8, u64, u64, u64, u8);

fn xcr0_valid(f: u64) -> bool {
    let x87 = f & 1 != 0;
    let sse = f & 2 != 0;
    let avx = f & 4 != 0;
    let mpx = f & 0x18;
    let a512 = f & 0xe0;
    x87 && (!avx || sse) && (mpx == 0 || mpx == 0x18) && (a512 == 0 || (a512 == 0xe0 && avx))
}

/// What a user sees of a DR7 value: the flags and the four condition / length fields through the decoded
/// accessors (encodings per SDM vol.3 18.2.4: LEN 00 = 1 byte, 01 = 2, 10 = 8, 11 = 4). "Never lose bits"
/// is judged on this view as well as on `bits()`: a read whose accessors disagree with the register content
/// has lost the field for the caller.
fn dr7_decode(v: &Dr7Value) -> u64 {
    use x86_64::registers::debug::{BreakpointCondition as C, BreakpointSize as S, DebugAddressRegisterNumber as N};
    let mut out = v.flags().bits();
    for n in 0..4u8 {
        let r = N::new(n).unwrap();
        let c = match v.condition(r) { C::InstructionExecution => 0u64, C::DataWrites => 1, C::IoReadsWrites => 2, C::DataReadsWrites => 3 };
        let l = match v.size(r) { S::Length1B => 0u64, S::Length2B => 1, S::Length8B => 2, S::Length4B => 3 };
        out |= c << (16 + 4 * n) | l << (18 + 4 * n);
    }
    assert_eq!(out, v.bits(), "Dr7Value: decoded accessors (flags/condition/size) disagree with bits()");
    out
}

/// The same value built the way a user builds it: flags, then the setters of the eight fields.
fn dr7_compose(a: u64) -> Dr7Value {
    use x86_64::registers::debug::{BreakpointCondition as C, BreakpointSize as S, DebugAddressRegisterNumber as N, Dr7Flags};
    let mut v = Dr7Value::from(Dr7Flags::from_bits(a & !0xffff_0000).expect("valid dr7 flag bits"));
    for n in 0..4u8 {
        let r = N::new(n).unwrap();
        v.set_condition(r, [C::InstructionExecution, C::DataWrites, C::IoReadsWrites, C::DataReadsWrites][((a >> (16 + 4 * n)) & 3) as usize]);
        v.set_size(r, [S::Length1B, S::Length2B, S::Length8B, S::Length4B][((a >> (18 + 4 * n)) & 3) as usize]);
    }
    assert_eq!(v.bits(), a, "Dr7Value composed from flags and field setters");
    assert_eq!(Dr7Value::from_bits(a).map(|x| x.bits()), Some(a), "Dr7Value::from_bits");
    v
}

macro_rules! flag_reg {
    ($what:expr, $reg:expr, $modelled:expr, $prior:expr, $arg:expr, $raw:expr, $step:expr,
     read: $read:expr, read_raw: $read_raw:expr, write: $write:expr, write_raw: $write_raw:expr, update: $update:expr,
     valid: $valid:expr, obs: $obs:expr) => {{
        let reg: Reg = $reg;
        let m: u64 = $modelled;
        let prior: u64 = $prior;
        let arg: u64 = $arg & m;
        begin();
        set_prior(reg, prior);
        cpu().clear_log();
        let min_read = if reg == Reg::Xcr0 { 0 } else { 1 };
        match $step % 5 {
            0 => {
                let got: u64 = $read();
                ensure_eq!(got, prior & m, "{}::read() with register = {:#x}", $what, prior);
                check_log(concat!($what, "::read"), reg, &[], min_read)?;
            }
            1 => {
                let got: u64 = $read_raw();
                ensure_eq!(got, prior, "{}::read_raw()", $what);
                check_log(concat!($what, "::read_raw"), reg, &[], min_read)?;
            }
            2 => {
                let valid: bool = $valid(arg);
                let r = outcome(|| $write(arg));
                if valid {
                    ensure!(!r.is_panic(), "{}::write({:#x}) panicked: {:?}", $what, arg, r);
                    let want = (prior & !m) | arg;
                    check_log(concat!($what, "::write"), reg, &[want], min_read)?;
                    ensure_eq!(current(reg), want, "{}: register after write", $what);
                    // what a typed write accepts is returned by the next typed read
                    let back: u64 = $read();
                    ensure_eq!(back, arg, "{}: typed read after typed write", $what);
                } else {
                    ensure!(r.is_panic(), "{}::write({:#x}) must reject this combination", $what, arg);
                    check_log(concat!($what, "::write (rejected)"), reg, &[], 0)?;
                    ensure_eq!(current(reg), prior, "{}: rejected write must not change the register", $what);
                    $obs.label("rejected-without-write");
                }
            }
            3 => {
                let raw: u64 = $raw;
                $write_raw(raw);
                check_log(concat!($what, "::write_raw"), reg, &[raw], 0)?;
                ensure_eq!(current(reg), raw, "{}: register after write_raw", $what);
            }
            _ => {
                // update(f) with f = xor arg
                let newf = (prior & m) ^ arg;
                let valid: bool = $valid(newf);
                let seen = std::cell::Cell::new(0u64);
                let calls = std::cell::Cell::new(0u32);
                let r = outcome(|| $update(arg, &seen, &calls));
                if valid {
                    ensure!(!r.is_panic(), "{}::update panicked: {:?}", $what, r);
                    ensure_eq!(calls.get(), 1u32, "{}::update closure calls", $what);
                    ensure_eq!(seen.get(), prior & m, "{}::update closure argument", $what);
                    let want = (prior & !m) | newf;
                    check_log(concat!($what, "::update"), reg, &[want], min_read)?;
                } else {
                    ensure!(r.is_panic(), "{}::update to {:#x} must be rejected", $what, newf);
                    check_log(concat!($what, "::update (rejected)"), reg, &[], 0)?;
                }
            }
        }
        if prior & !m != 0 && (prior & m) != arg {
            $obs.nontrivial(&($what, prior, arg, $step % 5));
        }
    }};
}

fn flag_case(c: &FlagCase, obs: &mut Obs) -> CaseResult {
    let (which, prior, arg, raw, step) = *c;
    match which % 5 {
        0 => flag_reg!("Cr0", Reg::Cr(0), CR0_MODELLED, prior, arg, raw, step,
            read: || Cr0::read().bits(), read_raw: || Cr0::read_raw(),
            write: |a| unsafe { Cr0::write(Cr0Flags::from_bits_retain(a)) }, write_raw: |v| unsafe { Cr0::write_raw(v) },
            update: |a: u64, seen: &std::cell::Cell<u64>, calls: &std::cell::Cell<u32>| unsafe { Cr0::update(|f| { seen.set(f.bits()); calls.set(calls.get() + 1); *f = Cr0Flags::from_bits_retain(f.bits() ^ a); }) },
            valid: |_| true, obs: obs),
        1 => flag_reg!("Cr4", Reg::Cr(4), CR4_MODELLED, prior, arg, raw, step,
            read: || Cr4::read().bits(), read_raw: || Cr4::read_raw(),
            write: |a| unsafe { Cr4::write(Cr4Flags::from_bits_retain(a)) }, write_raw: |v| unsafe { Cr4::write_raw(v) },
            update: |a: u64, seen: &std::cell::Cell<u64>, calls: &std::cell::Cell<u32>| unsafe { Cr4::update(|f| { seen.set(f.bits()); calls.set(calls.get() + 1); *f = Cr4Flags::from_bits_retain(f.bits() ^ a); }) },
            valid: |_| true, obs: obs),
        2 => flag_reg!("Efer", Reg::Msr(MSR_EFER), EFER_MODELLED, prior, arg, raw, step,
            read: || Efer::read().bits(), read_raw: || Efer::read_raw(),
            write: |a| unsafe { Efer::write(EferFlags::from_bits_retain(a)) }, write_raw: |v| unsafe { Efer::write_raw(v) },
            update: |a: u64, seen: &std::cell::Cell<u64>, calls: &std::cell::Cell<u32>| unsafe { Efer::update(|f| { seen.set(f.bits()); calls.set(calls.get() + 1); *f = EferFlags::from_bits_retain(f.bits() ^ a); }) },
            valid: |_| true, obs: obs),
        3 => flag_reg!("XCr0", Reg::Xcr0, XCR0_MODELLED, prior, arg, raw, step,
            read: || XCr0::read().bits(), read_raw: || XCr0::read_raw(),
            write: |a| unsafe { XCr0::write(XCr0Flags::from_bits_retain(a)) }, write_raw: |v| unsafe { XCr0::write_raw(v) },
            update: |a: u64, seen: &std::cell::Cell<u64>, calls: &std::cell::Cell<u32>| unsafe { XCr0::update(|f| { seen.set(f.bits()); calls.set(calls.get() + 1); *f = XCr0Flags::from_bits_retain(f.bits() ^ a); }) },
            valid: xcr0_valid, obs: obs),
        _ => flag_reg!("Dr7", Reg::Dr(7), DR7_MODELLED, prior, arg, raw, step,
            read: || dr7_decode(&Dr7::read()), read_raw: || Dr7::read_raw(),
            write: |a| Dr7::write(dr7_compose(a)), write_raw: |v| Dr7::write_raw(v),
            update: |a: u64, seen: &std::cell::Cell<u64>, calls: &std::cell::Cell<u32>| Dr7::update(|f| { seen.set(dr7_decode(f)); calls.set(calls.get() + 1); *f = dr7_compose(f.bits() ^ a); }),
            valid: |_| true, obs: obs),
    }
    cpu().reset();
    Ok(())
}

// ---- Cr2, Cr3, Dr0-3, Dr6 -------------------------------------------------------------------------

type Cr3Case = (u8, u64, u64, u16, u16);

fn cr3_case(c: &Cr3Case, obs: &mut Obs) -> CaseResult {
    let (step, prior, frame, low, pcid) = *c;
    let frame = frame & ADDR_BITS;
    let pf = PhysFrame::<Size4KiB>::containing_address(PhysAddr::new(frame));
    let r3 = Reg::Cr(3);
    begin();
    set_prior(r3, prior);
    cpu().clear_log();
    let pframe = prior & ADDR_BITS;
    // PCIDs are 12 bits wide: a value the constructor accepts is ORed into CR3[11:0] by the typed
    // writes, so accepting anything >= 4096 would corrupt the frame bits / not read back
    ensure_eq!(Pcid::new(pcid).is_ok(), pcid < 4096, "Pcid::new({}) accepted?", pcid);
    let pcid = pcid % 4096;
    let flags_arg = (low as u64) & 0x18;
    match step % 13 {
        0 => {
            let (f, fl) = Cr3::read();
            ensure_eq!(f.start_address().as_u64(), pframe, "Cr3::read frame (cr3={:#x})", prior);
            ensure_eq!(fl.bits(), prior & 0x18, "Cr3::read flags");
            check_log("Cr3::read", r3, &[], 1)?;
        }
        1 => {
            let (f, v) = Cr3::read_raw();
            ensure_eq!(f.start_address().as_u64(), pframe, "Cr3::read_raw frame");
            ensure_eq!(v as u64, prior & 0xfff, "Cr3::read_raw low 12 bits");
            check_log("Cr3::read_raw", r3, &[], 1)?;
        }
        2 => {
            let (f, p) = Cr3::read_pcid();
            ensure_eq!(f.start_address().as_u64(), pframe, "Cr3::read_pcid frame");
            ensure_eq!(p.value() as u64, prior & 0xfff, "Cr3::read_pcid pcid");
            check_log("Cr3::read_pcid", r3, &[], 1)?;
        }
        3 => {
            unsafe { Cr3::write(pf, Cr3Flags::from_bits_retain(flags_arg)) };
            check_log("Cr3::write", r3, &[frame | flags_arg], 0)?;
            let (f, fl) = Cr3::read();
            ensure_eq!((f.start_address().as_u64(), fl.bits()), (frame, flags_arg), "Cr3 read after write");
        }
        4 => {
            unsafe { Cr3::write_pcid(pf, Pcid::new(pcid).unwrap()) };
            check_log("Cr3::write_pcid", r3, &[frame | pcid as u64], 0)?;
            let (f, p) = Cr3::read_pcid();
            ensure_eq!((f.start_address().as_u64(), p.value()), (frame, pcid), "Cr3 read_pcid after write_pcid");
        }
        5 => {
            unsafe { Cr3::write_pcid_no_flush(pf, Pcid::new(pcid).unwrap()) };
            check_log("Cr3::write_pcid_no_flush", r3, &[(1 << 63) | frame | pcid as u64], 0)?;
        }
        6 => {
            let v = low % 4096;
            unsafe { Cr3::write_raw(pf, v) };
            check_log("Cr3::write_raw", r3, &[frame | v as u64], 0)?;
            let (f, got) = Cr3::read_raw();
            ensure_eq!((f.start_address().as_u64(), got), (frame, v), "Cr3 read_raw after write_raw");
        }
        7 => {
            // update: read-modify-write on the typed (frame, flags) view
            let seen = std::cell::Cell::new((0u64, 0u64));
            unsafe {
                Cr3::update(|f, fl| {
                    seen.set((f.start_address().as_u64(), fl.bits()));
                    *f = pf;
                    *fl = Cr3Flags::from_bits_retain(fl.bits() ^ flags_arg);
                })
            };
            ensure_eq!(seen.get(), (pframe, prior & 0x18), "Cr3::update closure arguments");
            check_log("Cr3::update", r3, &[frame | ((prior & 0x18) ^ flags_arg)], 1)?;
        }
        8 => {
            let seen = std::cell::Cell::new((0u64, 0u16));
            unsafe {
                Cr3::update_pcid(|f, p| {
                    seen.set((f.start_address().as_u64(), p.value()));
                    *f = pf;
                    *p = Pcid::new(pcid).unwrap();
                })
            };
            ensure_eq!(seen.get(), (pframe, (prior & 0xfff) as u16), "Cr3::update_pcid closure arguments");
            check_log("Cr3::update_pcid", r3, &[frame | pcid as u64], 1)?;
        }
        9 => {
            unsafe {
                Cr3::update_pcid_no_flush(|f, p| {
                    *f = pf;
                    *p = Pcid::new(pcid).unwrap();
                })
            };
            check_log("Cr3::update_pcid_no_flush", r3, &[(1 << 63) | frame | pcid as u64], 1)?;
        }
        10 => {
            set_prior(Reg::Cr(2), prior);
            cpu().clear_log();
            let r = Cr2::read();
            match (r, is_canonical(prior)) {
                (Ok(v), true) => ensure_eq!(v.as_u64(), prior, "Cr2::read"),
                (Err(e), false) => ensure_eq!(e.0, prior, "Cr2::read error payload"),
                (r, _) => return Err(format!("Cr2::read with cr2={:#x} returned {:?}", prior, r)),
            }
            check_log("Cr2::read", Reg::Cr(2), &[], 1)?;
            ensure_eq!(Cr2::read_raw(), prior, "Cr2::read_raw");
            check_log("Cr2::read_raw", Reg::Cr(2), &[], 1)?;
        }
        11 => {
            // Dr0..Dr3 read/write, Dr6 read
            let n = (low % 4) as u8;
            let reg = Reg::Dr(n);
            set_prior(reg, prior);
            cpu().clear_log();
            let got = match n {
                0 => Dr0::read(),
                1 => Dr1::read(),
                2 => Dr2::read(),
                _ => Dr3::read(),
            };
            ensure_eq!(got, prior, "Dr{}::read", n);
            check_log("DrN::read", reg, &[], 1)?;
            match n {
                0 => Dr0::write(frame ^ prior),
                1 => Dr1::write(frame ^ prior),
                2 => Dr2::write(frame ^ prior),
                _ => Dr3::write(frame ^ prior),
            };
            check_log("DrN::write", reg, &[frame ^ prior], 0)?;
            ensure_eq!([Dr0::NUM.get(), Dr1::NUM.get(), Dr2::NUM.get(), Dr3::NUM.get()], [0u8, 1, 2, 3], "NUM constants");
            cpu().clear_log();
        }
        _ => {
            set_prior(Reg::Dr(6), prior);
            cpu().clear_log();
            ensure_eq!(Dr6::read().bits(), prior & bits(&[0, 1, 2, 3, 13, 14, 15, 16]), "Dr6::read");
            check_log("Dr6::read", Reg::Dr(6), &[], 1)?;
            ensure_eq!(Dr6::read_raw(), prior, "Dr6::read_raw");
            check_log("Dr6::read_raw", Reg::Dr(6), &[], 1)?;
        }
    }
    cpu().reset();
    obs.label(format!("step{}", step % 13));
    if prior & 0xfe7 != 0 || prior >> 52 != 0 {
        obs.nontrivial(&(step % 13, prior, frame, low, pcid));
    }
    Ok(())
}

// ---- MSR wrappers -----------------------------------------------------------------------------------

type MsrCase = (u8, u64, u64, (u16, u16, u16, u16), u32);

fn pat_type(b: u8) -> PatMemoryType {
    [
        PatMemoryType::StrongUncacheable,
        PatMemoryType::WriteCombining,
        PatMemoryType::WriteThrough,
        PatMemoryType::WriteProtected,
        PatMemoryType::WriteBack,
        PatMemoryType::Uncacheable,
    ][(b % 6) as usize]
}
fn pat_bits(b: u8) -> u8 {
    [0u8, 1, 4, 5, 6, 7][(b % 6) as usize]
}

fn msr_case(c: &MsrCase, obs: &mut Obs) -> CaseResult {
    let (step, prior, arg, sels, idx) = *c;
    begin();
    let mut nontrivial = true;
    match step % 16 {
        0 => {
            // generic Msr on an arbitrary index
            let reg = Reg::Msr(idx);
            set_prior(reg, prior);
            cpu().clear_log();
            let mut m = Msr::new(idx);
            ensure_eq!(unsafe { m.read() }, prior, "Msr({:#x})::read", idx);
            check_log("Msr::read", reg, &[], 1)?;
            unsafe { m.write(arg) };
            check_log("Msr::write", reg, &[arg], 0)?;
            ensure_eq!(unsafe { m.read() }, arg, "Msr read after write");
            cpu().clear_log();
        }
        1 | 2 | 3 | 4 => {
            // base-address / entry-point MSRs: canonical contents
            let (reg, name) = match step % 16 {
                1 => (Reg::Msr(MSR_FS_BASE), "FsBase"),
                2 => (Reg::Msr(MSR_GS_BASE), "GsBase"),
                3 => (Reg::Msr(MSR_KERNEL_GS_BASE), "KernelGsBase"),
                _ => (Reg::Msr(MSR_LSTAR), "LStar"),
            };
            let prior = sign_extend48(prior);
            let arg = sign_extend48(arg);
            set_prior(reg, prior);
            cpu().clear_log();
            let got = match step % 16 {
                1 => FsBase::read(),
                2 => GsBase::read(),
                3 => KernelGsBase::read(),
                _ => LStar::read(),
            };
            ensure_eq!(got.as_u64(), prior, "{}::read", name);
            check_log("base MSR read", reg, &[], 1)?;
            let a = VirtAddr::new(arg);
            match step % 16 {
                1 => FsBase::write(a),
                2 => GsBase::write(a),
                3 => KernelGsBase::write(a),
                _ => LStar::write(a),
            };
            check_log("base MSR write", reg, &[arg], 0)?;
            let back = match step % 16 {
                1 => FsBase::read(),
                2 => GsBase::read(),
                3 => KernelGsBase::read(),
                _ => LStar::read(),
            };
            ensure_eq!(back.as_u64(), arg, "{} read after write", name);
            cpu().clear_log();
        }
        5 => {
            let reg = Reg::Msr(MSR_STAR);
            set_prior(reg, prior);
            cpu().clear_log();
            let (sysret, syscall) = Star::read_raw();
            ensure_eq!((sysret as u64, syscall as u64), (prior >> 48, (prior >> 32) & 0xffff), "Star::read_raw");
            check_log("Star::read_raw", reg, &[], 1)?;
            unsafe { Star::write_raw(sels.0, sels.1) };
            check_log("Star::write_raw", reg, &[((sels.0 as u64) << 48) | ((sels.1 as u64) << 32)], 0)?;
            ensure_eq!(Star::read_raw(), (sels.0, sels.1), "Star read_raw after write_raw");
            cpu().clear_log();
        }
        6 => {
            // typed read on contents whose selector arithmetic does not overflow
            let reg = Reg::Msr(MSR_STAR);
            let f = (prior >> 48) as u16;
            let g = ((prior >> 32) & 0xffff) as u16;
            if f > 0xffef || g > 0xfff7 {
                nontrivial = false;
            } else {
                set_prior(reg, prior);
                cpu().clear_log();
                let (a, b, cc, d) = Star::read();
                ensure_eq!((a.0, b.0, cc.0, d.0), (f + 16, f + 8, g, g + 8), "Star::read with msr={:#x}", prior);
                check_log("Star::read", reg, &[], 1)?;
            }
        }
        7 | 8 => {
            let reg = Reg::Msr(MSR_STAR);
            set_prior(reg, prior);
            cpu().clear_log();
            // step 7: a valid quadruple built from (f, g); step 8: arbitrary (mostly invalid)
            let (cs_sr, ss_sr, cs_sc, ss_sc) = if step % 16 == 8 && idx & 3 == 0 {
                // selectors that satisfy the +8/+16 offsets only modulo 2^16 (must be rejected)
                let a = sels.0 % 24;
                let c = 0xfff0 | (sels.1 & 0xf);
                match idx & 12 {
                    0 => (a, a.wrapping_sub(8), sels.2 & 0xfff8, (sels.2 & 0xfff8).wrapping_add(8)),
                    4 => (sels.2 | 3, (sels.2 | 3).wrapping_sub(8), c, c.wrapping_add(8)),
                    _ => (a, a.wrapping_sub(8), c, c.wrapping_add(8)),
                }
            } else if step % 16 == 7 {
                let f = (sels.0 | 3) & 0xffef; // RPL 3, room for +16
                let f = if f < 3 { 3 } else { f };
                let g = sels.1 & 0xfff0 & !3;
                (f.wrapping_add(16), f + 8, g, g + 8)
            } else {
                sels
            };
            let valid = (cs_sr as i32 - 16 == ss_sr as i32 - 8) && (cs_sc as i32 == ss_sc as i32 - 8) && (ss_sr & 3 == 3) && (ss_sc & 3 == 0);
            let r = outcome(|| Star::write(SegmentSelector(cs_sr), SegmentSelector(ss_sr), SegmentSelector(cs_sc), SegmentSelector(ss_sc)));
            match r {
                Outcome::Ret(Ok(())) => {
                    ensure!(valid, "Star::write accepted invalid selectors {:x?}", (cs_sr, ss_sr, cs_sc, ss_sc));
                    let want = ((ss_sr.wrapping_sub(8) as u64) << 48) | ((cs_sc as u64) << 32);
                    check_log("Star::write", reg, &[want], 0)?;
                    if ss_sr >= 8 && cs_sr >= 16 {
                        let (a, b, cc, d) = Star::read();
                        ensure_eq!((a.0, b.0, cc.0, d.0), (cs_sr, ss_sr, cs_sc, ss_sc), "Star::read after Star::write");
                    }
                    cpu().clear_log();
                }
                Outcome::Ret(Err(_)) => {
                    ensure!(!valid, "Star::write rejected valid selectors {:x?}", (cs_sr, ss_sr, cs_sc, ss_sc));
                    check_log("Star::write (rejected)", reg, &[], 0)?;
                    ensure_eq!(current(reg), prior, "rejected Star::write must not write");
                    obs.label("rejected-without-write");
                }
                Outcome::Panic(m) => {
                    // only the undocumented corner ss_sysret < 8 may panic (checked builds), and then without writing
                    ensure!(ss_sr < 8, "Star::write panicked: {}", m);
                    check_log("Star::write (panicked)", reg, &[], 0)?;
                }
            }
        }
        9 => {
            let reg = Reg::Msr(MSR_SFMASK);
            let prior = prior & RFLAGS_MODELLED;
            let arg = arg & RFLAGS_MODELLED;
            set_prior(reg, prior);
            cpu().clear_log();
            ensure_eq!(SFMask::read().bits(), prior, "SFMask::read");
            check_log("SFMask::read", reg, &[], 1)?;
            SFMask::write(RFlags::from_bits_retain(arg));
            check_log("SFMask::write", reg, &[arg], 0)?;
            ensure_eq!(SFMask::read().bits(), arg, "SFMask read after write");
            cpu().clear_log();
            SFMask::update(|f| *f = RFlags::from_bits_retain(f.bits() ^ prior));
            check_log("SFMask::update", reg, &[arg ^ prior], 1)?;
        }
        10 | 11 => {
            let user = step % 16 == 10;
            let reg = Reg::Msr(if user { MSR_U_CET } else { MSR_S_CET });
            let mk = |x: u64| (sign_extend48(x) & !0xfff) | (x & CET_FLAGS);
            let (prior, arg) = (mk(prior), mk(arg));
            set_prior(reg, prior);
            cpu().clear_log();
            let (fl, pg) = if user { UCet::read() } else { SCet::read() };
            ensure_eq!(fl.bits(), prior & CET_FLAGS, "CET read flags");
            ensure_eq!(pg.start_address().as_u64(), prior & !0xfff, "CET read legacy bitmap page");
            check_log("CET read", reg, &[], 1)?;
            let af = CetFlags::from_bits_retain(arg & CET_FLAGS);
            let ap = Page::<Size4KiB>::containing_address(VirtAddr::new(arg & !0xfff));
            if user { UCet::write(af, ap) } else { SCet::write(af, ap) };
            check_log("CET write", reg, &[arg], 0)?;
            let (fl, pg) = if user { UCet::read() } else { SCet::read() };
            ensure_eq!((fl.bits(), pg.start_address().as_u64()), (arg & CET_FLAGS, arg & !0xfff), "CET read after write");
            cpu().clear_log();
            let f = |fl: &mut CetFlags, pg: &mut Page| {
                *fl = CetFlags::from_bits_retain(fl.bits() ^ (prior & CET_FLAGS));
                *pg = Page::containing_address(VirtAddr::new(prior & !0xfff));
            };
            if user { UCet::update(f) } else { SCet::update(f) };
            check_log("CET update", reg, &[((arg ^ prior) & CET_FLAGS) | (prior & !0xfff)], 1)?;
        }
        12 => {
            let reg = Reg::Msr(MSR_PAT);
            let pb = prior.to_le_bytes();
            let ab = arg.to_le_bytes();
            let pv = u64::from_le_bytes(pb.map(pat_bits));
            let av = u64::from_le_bytes(ab.map(pat_bits));
            set_prior(reg, pv);
            cpu().clear_log();
            let t = Pat::read();
            ensure_eq!(t, pb.map(pat_type), "Pat::read with msr={:#x}", pv);
            check_log("Pat::read", reg, &[], 1)?;
            unsafe { Pat::write(ab.map(pat_type)) };
            check_log("Pat::write", reg, &[av], 0)?;
            ensure_eq!(Pat::read(), ab.map(pat_type), "Pat read after write");
            cpu().clear_log();
        }
        13 => {
            let reg = Reg::Msr(MSR_APIC_BASE);
            set_prior(reg, prior);
            cpu().clear_log();
            let (f, fl) = ApicBase::read();
            ensure_eq!(f.start_address().as_u64(), prior & ADDR_BITS, "ApicBase::read frame (msr={:#x})", prior);
            ensure_eq!(fl.bits(), prior & APIC_FLAGS, "ApicBase::read flags");
            check_log("ApicBase::read", reg, &[], 1)?;
            let (f, raw) = ApicBase::read_raw();
            ensure_eq!((f.start_address().as_u64(), raw), (prior & ADDR_BITS, prior), "ApicBase::read_raw");
            check_log("ApicBase::read_raw", reg, &[], 1)?;
        }
        14 => {
            // typed write: stores frame and flags, preserves every bit the type does not model
            let reg = Reg::Msr(MSR_APIC_BASE);
            set_prior(reg, prior);
            cpu().clear_log();
            let frame = arg & ADDR_BITS;
            let flags = (arg >> 1) & APIC_FLAGS;
            if crate::props::c16::APIC_WRITE_KNOWN.load(std::sync::atomic::Ordering::Relaxed) && (prior & ADDR_BITS) & !frame != 0 {
                obs.exclude("C16-apicbase-write-keeps-old-base");
                cpu().reset();
                return Ok(());
            }
            unsafe { ApicBase::write(PhysFrame::containing_address(PhysAddr::new(frame)), ApicBaseFlags::from_bits_retain(flags)) };
            let want = (prior & !(ADDR_BITS | APIC_FLAGS)) | frame | flags;
            check_log("ApicBase::write", reg, &[want], 1)?;
            let (f, fl) = ApicBase::read();
            ensure_eq!((f.start_address().as_u64(), fl.bits()), (frame, flags), "ApicBase read after write");
            cpu().clear_log();
        }
        _ => {
            // raw write: flags argument = the non-address bits
            let reg = Reg::Msr(MSR_APIC_BASE);
            set_prior(reg, prior);
            cpu().clear_log();
            let frame = arg & ADDR_BITS;
            let flags = prior.rotate_left(17) & !ADDR_BITS;
            unsafe { ApicBase::write_raw(PhysFrame::containing_address(PhysAddr::new(frame)), flags) };
            check_log("ApicBase::write_raw", reg, &[frame | flags], 0)?;
        }
    }
    cpu().reset();
    obs.label(format!("step{}", step % 16));
    if nontrivial {
        obs.nontrivial(&(step % 16, prior, arg, sels, if step % 16 == 0 { idx } else { 0 }));
    }
    Ok(())
}

pub static APIC_WRITE_KNOWN: std::sync::atomic::AtomicBool = std::sync::atomic::AtomicBool::new(false);

// ---- segment registers, bases, load_tss, swapgs, mxcsr, rflags ------------------------------------------

type SegCase = (u8, u16, u64);

/// selectors that are guaranteed to fault in a Linux process: TI = 1 (no LDT) or GDT index >= 16
fn faulting_selector(x: u16) -> u16 {
    if x & 4 != 0 || (x >> 3) >= 16 {
        x
    } else {
        x | 4
    }
}

fn native_sreg(n: u8) -> u16 {
    let v: u16;
    unsafe {
        match n {
            0 => core::arch::asm!("mov {0:x}, es", out(reg) v, options(nomem, nostack, preserves_flags)),
            1 => core::arch::asm!("mov {0:x}, cs", out(reg) v, options(nomem, nostack, preserves_flags)),
            2 => core::arch::asm!("mov {0:x}, ss", out(reg) v, options(nomem, nostack, preserves_flags)),
            3 => core::arch::asm!("mov {0:x}, ds", out(reg) v, options(nomem, nostack, preserves_flags)),
            4 => core::arch::asm!("mov {0:x}, fs", out(reg) v, options(nomem, nostack, preserves_flags)),
            _ => core::arch::asm!("mov {0:x}, gs", out(reg) v, options(nomem, nostack, preserves_flags)),
        }
    }
    v
}

fn seg_case(c: &SegCase, obs: &mut Obs) -> CaseResult {
    let (step, sel, val) = *c;
    begin();
    let fs = faulting_selector(sel);
    // architectural segment-register numbers: ES=0 CS=1 SS=2 DS=3 FS=4 GS=5
    match step % 12 {
        s @ 0..=4 => {
            let (num, name) = [(2u64, "SS"), (3, "DS"), (0, "ES"), (4, "FS"), (5, "GS")][s as usize];
            let before = native_sreg(num as u8);
            unsafe {
                match s {
                    0 => SS::set_reg(SegmentSelector(fs)),
                    1 => DS::set_reg(SegmentSelector(fs)),
                    2 => ES::set_reg(SegmentSelector(fs)),
                    3 => FS::set_reg(SegmentSelector(fs)),
                    _ => GS::set_reg(SegmentSelector(fs)),
                }
            }
            let log = cpu().take_log();
            ensure!(log.len() == 1 && log[0].op == Op::MovSreg, "{}::set_reg({:#x}): expected one segment load, trapped {:x?}", name, fs, log);
            ensure_eq!(log[0].a, num, "{}::set_reg loaded segment register number", name);
            ensure_eq!(log[0].b, fs as u64, "{}::set_reg selector operand", name);
            ensure_eq!(native_sreg(num as u8), before, "harness: trapped load must not change the real register");
        }
        5 => {
            // CS::set_reg: far return to (label, selector)
            let marker = val | 1;
            let keep = std::hint::black_box(marker);
            unsafe { CS::set_reg(SegmentSelector(fs)) };
            let log = cpu().take_log();
            ensure!(log.len() == 1 && log[0].op == Op::Retfq, "CS::set_reg({:#x}): expected one far return, trapped {:x?}", fs, log);
            ensure_eq!(log[0].a, fs as u64, "CS::set_reg: CS popped by the far return");
            ensure_eq!(log[0].c, 1u64, "CS::set_reg: 64-bit operand size far return");
            // the return address is the instruction after the retfq
            ensure_eq!(log[0].b, log[0].rip + log[0].len as u64, "CS::set_reg: far return target must be the label after retfq");
            ensure_eq!(keep, marker, "stack/regs intact after CS::set_reg");
        }
        6 => {
            // get_reg vs the harness's own asm
            ensure_eq!(CS::get_reg().0, native_sreg(1), "CS::get_reg");
            ensure_eq!(SS::get_reg().0, native_sreg(2), "SS::get_reg");
            ensure_eq!(DS::get_reg().0, native_sreg(3), "DS::get_reg");
            ensure_eq!(ES::get_reg().0, native_sreg(0), "ES::get_reg");
            ensure_eq!(FS::get_reg().0, native_sreg(4), "FS::get_reg");
            ensure_eq!(GS::get_reg().0, native_sreg(5), "GS::get_reg");
            ensure!(cpu().log_len == 0, "get_reg must not execute privileged instructions");
        }
        7 => {
            // GS base: native wrgsbase/rdgsbase round trip (GS is unused in a Linux process)
            let a = sign_extend48(val);
            let native_before: u64;
            unsafe { core::arch::asm!("rdgsbase {}", out(reg) native_before, options(nomem, nostack)) };
            unsafe { GS::write_base(VirtAddr::new(a)) };
            let native: u64;
            unsafe { core::arch::asm!("rdgsbase {}", out(reg) native, options(nomem, nostack)) };
            let got = GS::read_base().as_u64();
            unsafe { core::arch::asm!("wrgsbase {}", in(reg) native_before, options(nomem, nostack)) };
            ensure_eq!(native, a, "GS::write_base: value seen by rdgsbase");
            ensure_eq!(got, a, "GS::read_base after write_base");
            ensure!(cpu().log_len == 0, "GS base access must not trap");
            ensure_eq!(<GS as Segment64>::BASE.verif_index(), MSR_GS_BASE, "GS::BASE msr");
        }
        8 => {
            // FS base: read must equal the harness's rdfsbase; write checked in a tight window
            let native: u64;
            unsafe { core::arch::asm!("rdfsbase {}", out(reg) native, options(nomem, nostack)) };
            ensure_eq!(FS::read_base().as_u64(), native, "FS::read_base");
            let a = sign_extend48(val);
            let seen: u64;
            unsafe {
                // write-readback-restore with no call in between (FS holds TLS)
                FS::write_base(VirtAddr::new_unsafe(a));
                core::arch::asm!("rdfsbase {0}", "wrfsbase {1}", out(reg) seen, in(reg) native, options(nostack));
            }
            ensure_eq!(seen, a, "FS::write_base: value seen by rdfsbase");
            ensure_eq!(<FS as Segment64>::BASE.verif_index(), MSR_FS_BASE, "FS::BASE msr");
        }
        9 => {
            set_prior(Reg::Msr(MSR_GS_BASE), val);
            set_prior(Reg::Msr(MSR_KERNEL_GS_BASE), !val);
            cpu().clear_log();
            unsafe { GS::swap() };
            let log = cpu().take_log();
            ensure!(log.len() == 1 && log[0].op == Op::Swapgs, "GS::swap: trapped {:x?}", log);
            ensure_eq!(current(Reg::Msr(MSR_GS_BASE)), !val, "swapgs effect");
        }
        10 => {
            unsafe { x86_64::instructions::tables::load_tss(SegmentSelector(sel)) };
            let log = cpu().take_log();
            ensure!(log.len() == 1 && log[0].op == Op::Ltr, "load_tss({:#x}): trapped {:x?}", sel, log);
            ensure_eq!(log[0].a, sel as u64, "load_tss selector operand");
        }
        _ => {
            // MXCSR native round trip on the mask/rounding bits; restored immediately.
            use x86_64::registers::mxcsr::{self, MxCsr};
            let orig = mxcsr::read();
            ensure_eq!(orig.bits(), native_mxcsr() & 0xffff, "mxcsr::read vs stmxcsr");
            // keep all exceptions masked (bits 7-12) so nothing can trap; vary rounding/FTZ/DAZ and sticky flags
            let want = (val as u32 & 0xe07f) | 0x1f80;
            mxcsr::write(MxCsr::from_bits_retain(want));
            let seen = native_mxcsr();
            let back = mxcsr::read().bits();
            mxcsr::write(orig);
            ensure_eq!(seen, want, "mxcsr::write: value seen by stmxcsr");
            ensure_eq!(back, want, "mxcsr::read after write");
            let mut upd = 0u32;
            mxcsr::update(|m| {
                upd = m.bits();
            });
            ensure_eq!(upd, orig.bits(), "mxcsr::update closure argument");
            ensure_eq!(native_mxcsr(), orig.bits(), "mxcsr restored");
            // RFLAGS: the ID flag (bit 21) is user-modifiable and untouched by arithmetic
            use x86_64::registers::rflags;
            let before = rflags::read_raw();
            let f = rflags::read();
            // (arithmetic flags may change between the two reads; compare the others)
            let arith = bits(&[0, 2, 4, 6, 7, 11]);
            ensure_eq!(f.bits() & !arith, before & RFLAGS_MODELLED & !arith, "rflags::read = modelled bits of read_raw");
            ensure_eq!(f.bits() & !RFLAGS_MODELLED, 0u64, "rflags::read drops unmodelled bits");
            let toggled = RFlags::from_bits_retain((f.bits() ^ (1 << 21)) & !(bits(&[0, 2, 4, 6, 7, 11])));
            unsafe { rflags::write(toggled) };
            let after = rflags::read_raw();
            unsafe { rflags::write(RFlags::from_bits_retain(f.bits() & !(bits(&[0, 2, 4, 6, 7, 11])))) };
            let restored = rflags::read_raw();
            let stable = bits(&[1, 8, 9, 10, 12, 13, 14, 16, 17, 18, 19, 20, 21]);
            ensure_eq!(after & stable, (before ^ (1 << 21)) & stable, "rflags::write toggling ID: stable bits after (before={:#x})", before);
            ensure_eq!(restored & stable, before & stable, "rflags restored");
            ensure!(after & 2 != 0, "reserved bit 1 of RFLAGS preserved");
            // update = read-modify-write: toggle ID through the closure, then toggle it back
            let mut seen = 0u64;
            unsafe {
                rflags::update(|f| {
                    seen = f.bits();
                    f.toggle(RFlags::ID);
                    f.remove(RFlags::CARRY_FLAG | RFlags::PARITY_FLAG | RFlags::AUXILIARY_CARRY_FLAG | RFlags::ZERO_FLAG | RFlags::SIGN_FLAG | RFlags::OVERFLOW_FLAG);
                })
            };
            let after_update = rflags::read_raw();
            unsafe { rflags::update(|f| f.toggle(RFlags::ID)) };
            let back = rflags::read_raw();
            ensure_eq!(seen & stable & RFLAGS_MODELLED, before & stable & RFLAGS_MODELLED, "rflags::update closure argument (stable modelled bits; the typed view drops reserved bit 1)");
            ensure_eq!(after_update & stable, (before ^ (1 << 21)) & stable, "rflags::update toggling ID");
            ensure_eq!(back & stable, before & stable, "rflags::update toggling ID back");
        }
    }
    ensure!(cpu().unexpected == 0, "unexpected fault");
    cpu().reset();
    obs.label(format!("step{}", step % 12));
    obs.nontrivial(&(step % 12, if step % 12 <= 5 || step % 12 == 10 { sel } else { 0 }, if matches!(step % 12, 7 | 8 | 9 | 11) { val } else { 0 }));
    Ok(())
}

fn native_mxcsr() -> u32 {
    let mut v: u32 = 0;
    unsafe { core::arch::asm!("stmxcsr [{}]", in(reg) &mut v, options(nostack)) };
    v
}

trait MsrIndex {
    fn verif_index(&self) -> u32;
}
impl MsrIndex for Msr {
    fn verif_index(&self) -> u32 {
        // Msr is a one-field tuple struct around the index (its Debug output is `Msr(<n>)`)
        let s = format!("{:?}", self);
        s.trim_start_matches("Msr(").trim_end_matches(')').parse().unwrap_or(u32::MAX)
    }
}

/// Reproducer of the known finding "ApicBase::write ORs the new frame into the old base bits".
fn apic_reproduces() -> bool {
    begin();
    set_prior(Reg::Msr(MSR_APIC_BASE), 0xfee0_0900);
    unsafe { ApicBase::write(PhysFrame::containing_address(PhysAddr::new(0x1000_0000)), ApicBaseFlags::LAPIC_ENABLE) };
    let v = current(Reg::Msr(MSR_APIC_BASE));
    cpu().reset();
    v & ADDR_BITS != 0x1000_0000
}

pub fn run(run: &mut Run) {
    umh::install();
    run.assume("privileged register instructions executed in ring 3 trap (#GP) and are decoded by the harness's own decoder and applied to an emulated register file; the wrappers' real inline assembly is what runs");
    run.assume("segment loads are generated only with selectors that are guaranteed to fault under Linux's GDT (TI=1 or index>=16); xgetbv does not trap: XCR0 prior content comes from hook H4; RFLAGS writes are checked natively on the ID flag only");
    run.assume("sound prior domains: canonical for FS/GS/KernelGS base and LSTAR, subsets of RFlags for SFMASK, valid PAT types, CET flags + page-aligned canonical address, STAR selector fields that do not overflow +16/+8; Cr3::write_raw val < 4096; ApicBase::write_raw flags without address bits");
    let known = run.open_finding("C16-apicbase-write-keeps-old-base", apic_reproduces);
    APIC_WRITE_KNOWN.store(known, std::sync::atomic::Ordering::Relaxed);

    let n = run.cases(500_000, 20_000_000);
    run.sub(
        "flagregs",
        "(Cr0|Cr4|Efer|XCr0|Dr7) x prior 64-bit content (edge-biased) x argument bits x one of read/read_raw/write/write_raw/update; oracle: trap log touches only that architectural register (CR number / MSR index / DR number / XCR 0 typed in from the manuals), typed read = modelled bits of prior, typed write stores (prior & !modelled) | arg with exactly one write, raw write stores the value, update = read-modify-write with the closure called once, typed read after typed write returns the argument, Dr7 values are read through the decoded accessors (flags(), condition(n), size(n); SDM encodings) and written as composed by the field setters, both of which must agree with bits(), XCr0 invalid combinations panic with an empty write log; non-trivial = prior has an unmodelled bit set and the argument differs from the prior in a modelled bit; distinct by (register, prior, arg, step)",
        n,
        (0u8..5, u64_edge(), prop_oneof![any::<u64>(), u64_edge()], u64_edge(), 0u8..5),
        flag_case,
    );
    let n = run.cases(400_000, 16_000_000);
    run.sub(
        "cr3_cr2_dr",
        "Cr3 read/read_raw/read_pcid/write/write_pcid/write_pcid_no_flush/write_raw/update/update_pcid/update_pcid_no_flush, Cr2 read/read_raw, Dr0-3 read/write, Dr6 read/read_raw on any prior u64; oracle: exact value written (frame|flags, frame|pcid, 1<<63|frame|pcid), typed views of the prior, round trips; non-trivial = prior has bits outside frame|PWT|PCD set",
        n,
        (0u8..13, u64_edge(), phys(), any::<u16>(), prop_oneof![6 => 0u16..4096, 1 => 4090u16..4100, 1 => any::<u16>()]),
        cr3_case,
    );
    let n = run.cases(500_000, 20_000_000);
    run.sub(
        "msrs",
        "Msr(any index), FsBase, GsBase, KernelGsBase, LStar, Star (raw, typed read, typed write with valid and arbitrary selector quadruples), SFMask, UCet, SCet, Pat, ApicBase (read, read_raw, write, write_raw) on priors from each wrapper's sound domain; oracle: rdmsr/wrmsr with ECX = the architectural index, EDX:EAX = full value, typed write semantics (ApicBase preserves unmodelled bits; others plain store), round trips, documented rejections (Star::write) return Err with an empty write log",
        n,
        (0u8..16, u64_edge(), prop_oneof![any::<u64>(), u64_edge()], (any::<u16>(), any::<u16>(), any::<u16>(), any::<u16>()), prop_oneof![any::<u32>(), Just(0xC000_0080u32), Just(0x1Bu32), Just(0x277u32)]),
        msr_case,
    );
    let n = run.cases(200_000, 8_000_000);
    run.sub(
        "segments",
        "SS/DS/ES/FS/GS::set_reg (one trapped load of the right segment register with the exact selector), CS::set_reg (trapped retfq popping the label after the asm and the selector), get_reg vs harness asm, GS/FS base native round trips, GS::swap (one swapgs), load_tss (one ltr with the selector), mxcsr and rflags native round trips",
        n,
        (0u8..12, any::<u16>(), u64_edge()),
        seg_case,
    );
}
