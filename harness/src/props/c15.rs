//! C15 — segment/TSS descriptors and the TSS have the architectural encoding.
use crate::engine::{outcome, CaseResult, Obs, Outcome, Run};
use crate::gen::*;
use crate::{ensure, ensure_eq};
use proptest::prelude::*;
use x86_64::structures::gdt::{Descriptor, DescriptorFlags};
use x86_64::structures::tss::TaskStateSegment;
use x86_64::structures::DescriptorTablePointer;
use x86_64::VirtAddr;

/// Independent decoder of a 16-byte system-segment descriptor (SDM vol.3 fig. 8-4).
#[derive(Debug, PartialEq)]
struct SysDesc {
    base: u64,
    limit: u32,
    typ: u8,
    s: bool,
    dpl: u8,
    p: bool,
    avl: bool,
    l: bool,
    db: bool,
    g: bool,
    high_reserved: u32,
}
fn decode_sys(low: u64, high: u64) -> SysDesc {
    SysDesc {
        base: ((low >> 16) & 0xff_ffff) | (((low >> 56) & 0xff) << 24) | ((high & 0xffff_ffff) << 32),
        limit: ((low & 0xffff) | (((low >> 48) & 0xf) << 16)) as u32,
        typ: ((low >> 40) & 0xf) as u8,
        s: (low >> 44) & 1 != 0,
        dpl: ((low >> 45) & 3) as u8,
        p: (low >> 47) & 1 != 0,
        avl: (low >> 52) & 1 != 0,
        l: (low >> 53) & 1 != 0,
        db: (low >> 54) & 1 != 0,
        g: (low >> 55) & 1 != 0,
        high_reserved: (high >> 32) as u32,
    }
}

fn tss_case(addr: &u64, obs: &mut Obs) -> CaseResult {
    let a = *addr;
    let d = unsafe { Descriptor::tss_segment_unchecked(a as *const TaskStateSegment) };
    let (low, high) = match d {
        Descriptor::SystemSegment(l, h) => (l, h),
        other => return Err(format!("tss_segment_unchecked returned {:x?}", other)),
    };
    let got = decode_sys(low, high);
    let want = SysDesc { base: a, limit: 0x67, typ: 0b1001, s: false, dpl: 0, p: true, avl: false, l: false, db: false, g: false, high_reserved: 0 };
    ensure_eq!(got, want, "TSS descriptor for address {:#x} (low {:#x}, high {:#x})", a, low, high);
    ensure_eq!(d.dpl() as u8, 0u8, "dpl() of the TSS descriptor");
    let fields = ((a & 0xff_ffff != 0) as u8) + (((a >> 24) & 0xff != 0) as u8) + ((a >> 32 != 0) as u8);
    if fields >= 2 {
        obs.nontrivial(&a);
    }
    Ok(())
}

fn dpl_case(v: &u64, obs: &mut Obs) -> CaseResult {
    let want = ((*v >> 45) & 3) as u8;
    ensure_eq!(Descriptor::UserSegment(*v).dpl() as u8, want, "UserSegment({:#x}).dpl()", v);
    ensure_eq!(Descriptor::SystemSegment(*v, !*v).dpl() as u8, want, "SystemSegment({:#x},_).dpl()", v);
    obs.nontrivial(&(want, *v & (1 << 44), *v & (1 << 47)));
    Ok(())
}

/// user (code/data) descriptor decode, SDM vol.3 fig. 3-8 / section 5.2 for 64-bit mode
fn presets_case(_: &u8, obs: &mut Obs) -> CaseResult {
    struct Want {
        name: &'static str,
        bits: u64,
        code: bool,
        long: bool,
        db: bool,
        dpl: u8,
    }
    let table = [
        Want { name: "KERNEL_CODE64", bits: DescriptorFlags::KERNEL_CODE64.bits(), code: true, long: true, db: false, dpl: 0 },
        Want { name: "KERNEL_CODE32", bits: DescriptorFlags::KERNEL_CODE32.bits(), code: true, long: false, db: true, dpl: 0 },
        Want { name: "KERNEL_DATA", bits: DescriptorFlags::KERNEL_DATA.bits(), code: false, long: false, db: true, dpl: 0 },
        Want { name: "USER_CODE64", bits: DescriptorFlags::USER_CODE64.bits(), code: true, long: true, db: false, dpl: 3 },
        Want { name: "USER_CODE32", bits: DescriptorFlags::USER_CODE32.bits(), code: true, long: false, db: true, dpl: 3 },
        Want { name: "USER_DATA", bits: DescriptorFlags::USER_DATA.bits(), code: false, long: false, db: true, dpl: 3 },
    ];
    for w in &table {
        let v = w.bits;
        ensure!((v >> 44) & 1 == 1, "{}: S bit (code/data descriptor)", w.name);
        ensure!((v >> 47) & 1 == 1, "{}: present", w.name);
        ensure_eq!((v >> 43) & 1 == 1, w.code, "{}: executable bit", w.name);
        ensure_eq!((v >> 53) & 1 == 1, w.long, "{}: L bit", w.name);
        ensure_eq!((v >> 54) & 1 == 1, w.db, "{}: D/B bit", w.name);
        ensure_eq!(((v >> 45) & 3) as u8, w.dpl, "{}: DPL", w.name);
        ensure!((v >> 41) & 1 == 1, "{}: readable/writable bit", w.name);
        ensure!(!(w.long && w.db), "{}: L and D must not both be set", w.name);
        ensure_eq!((v & 0xffff) | (((v >> 48) & 0xf) << 16), 0xfffffu64, "{}: limit", w.name);
        ensure!((v >> 55) & 1 == 1, "{}: granularity", w.name);
        ensure_eq!(Descriptor::UserSegment(v).dpl() as u8, w.dpl, "{}: dpl()", w.name);
        obs.nontrivial(&w.name);
    }
    let f = |d: Descriptor| match d {
        Descriptor::UserSegment(v) => v,
        _ => 0,
    };
    ensure_eq!(f(Descriptor::kernel_code_segment()), DescriptorFlags::KERNEL_CODE64.bits(), "kernel_code_segment()");
    ensure_eq!(f(Descriptor::kernel_data_segment()), DescriptorFlags::KERNEL_DATA.bits(), "kernel_data_segment()");
    ensure_eq!(f(Descriptor::user_code_segment()), DescriptorFlags::USER_CODE64.bits(), "user_code_segment()");
    ensure_eq!(f(Descriptor::user_data_segment()), DescriptorFlags::USER_DATA.bits(), "user_data_segment()");
    // the values the architecture manuals / every OS use
    ensure_eq!(DescriptorFlags::KERNEL_CODE64.bits(), 0x00af9b000000ffffu64, "KERNEL_CODE64 value");
    ensure_eq!(DescriptorFlags::USER_DATA.bits(), 0x00cff3000000ffffu64, "USER_DATA value");
    // tss_segment on a 'static TSS = unchecked on its address
    static TSS: TaskStateSegment = TaskStateSegment::new();
    let (a, b) = match (Descriptor::tss_segment(&TSS), unsafe { Descriptor::tss_segment_unchecked(&TSS) }) {
        (Descriptor::SystemSegment(a, b), Descriptor::SystemSegment(c, d)) => ((a, b), (c, d)),
        _ => return Err("tss_segment must return a system descriptor".into()),
    };
    ensure_eq!(a, b, "tss_segment vs tss_segment_unchecked");
    ensure_eq!(decode_sys(a.0, a.1).base, &TSS as *const _ as u64, "tss_segment base");
    // the descriptor is a function of the address only: a TSS whose public fields have been filled in
    // (stacks, I/O-map base incl. the "no I/O bitmap" idiom 0xffff) gives limit 0x67 all the same
    for iomap in [0u16, 0x67, 0x68, 0x80, 0xffff] {
        let mut t = TaskStateSegment::new();
        t.iomap_base = iomap;
        t.privilege_stack_table[0] = VirtAddr::new(0xffff_8000_0000_1000);
        t.interrupt_stack_table[3] = VirtAddr::new(0x7fff_ffff_f000);
        let t: &'static TaskStateSegment = Box::leak(Box::new(t));
        let (a, b) = match (outcome(|| Descriptor::tss_segment(t)), unsafe { Descriptor::tss_segment_unchecked(t) }) {
            (Outcome::Ret(Descriptor::SystemSegment(a, b)), Descriptor::SystemSegment(c, d)) => ((a, b), (c, d)),
            (r, _) => return Err(format!("tss_segment of a TSS with iomap_base {:#x}: {:?}", iomap, r.ret().map(|_| "not a system descriptor"))),
        };
        ensure_eq!(a, b, "tss_segment vs tss_segment_unchecked for a TSS with iomap_base {:#x}", iomap);
        let d = decode_sys(a.0, a.1);
        ensure_eq!((d.base, d.limit), (t as *const TaskStateSegment as u64, 0x67u32), "tss_segment(base, limit) for a TSS with iomap_base {:#x}", iomap);
    }
    Ok(())
}

fn layout_case(_: &u8, obs: &mut Obs) -> CaseResult {
    let t = TaskStateSegment::new();
    let base = &t as *const _ as usize;
    ensure_eq!(core::mem::size_of::<TaskStateSegment>(), 0x68usize, "TSS size");
    ensure_eq!(core::ptr::addr_of!(t.privilege_stack_table) as usize - base, 4usize, "privilege_stack_table offset");
    ensure_eq!(core::ptr::addr_of!(t.interrupt_stack_table) as usize - base, 0x24usize, "interrupt_stack_table offset");
    ensure_eq!(core::ptr::addr_of!(t.iomap_base) as usize - base, 0x66usize, "iomap_base offset");
    let bytes = unsafe { *(base as *const [u8; 0x68]) };
    for (i, b) in bytes.iter().enumerate() {
        let want = if i == 0x66 { 0x68 } else { 0 };
        ensure_eq!(*b, want as u8, "byte {:#x} of TaskStateSegment::new()", i);
    }
    let d = TaskStateSegment::default();
    ensure!(unsafe { *(&d as *const _ as *const [u8; 0x68]) } == bytes, "default() == new()");
    // stacks are 8-byte entries in order
    let mut t2 = TaskStateSegment::new();
    t2.privilege_stack_table[2] = VirtAddr::new(0x1122_3344_5566);
    t2.interrupt_stack_table[6] = VirtAddr::new(0xffff_8000_0000_1000);
    let b2 = unsafe { *(&t2 as *const _ as *const [u8; 0x68]) };
    ensure_eq!(u64::from_le_bytes(b2[4 + 16..4 + 24].try_into().unwrap()), 0x1122_3344_5566u64, "RSP2 at byte 0x14");
    ensure_eq!(u64::from_le_bytes(b2[0x24 + 48..0x24 + 56].try_into().unwrap()), 0xffff_8000_0000_1000u64, "IST7 at byte 0x54");
    // descriptor-table pointer: 16-bit limit at 0, 64-bit base at 2, 10 bytes
    let p = DescriptorTablePointer { limit: 0xBEEF, base: VirtAddr::new(0x0000_1234_5678_9000) };
    ensure_eq!(core::mem::size_of::<DescriptorTablePointer>(), 10usize, "DescriptorTablePointer size");
    let pb = unsafe { *(&p as *const _ as *const [u8; 10]) };
    ensure_eq!(u16::from_le_bytes([pb[0], pb[1]]), 0xBEEFu16, "limit at byte 0");
    ensure_eq!(u64::from_le_bytes(pb[2..10].try_into().unwrap()), 0x0000_1234_5678_9000u64, "base at byte 2");
    for k in 0..6u8 {
        obs.nontrivial(&k);
    }
    Ok(())
}

pub fn run(run: &mut Run) {
    let n = run.cases(1_000_000, 40_000_000);
    run.sub(
        "tss_descriptor",
        "tss_segment_unchecked on edge-biased + uniform u64 addresses (a pure function of the pointer); oracle: independent 16-byte system-descriptor decoder: base = full 64-bit address, limit 0x67, type 0b1001, S=0, DPL 0, P=1, AVL/L/DB/G=0, upper 32 bits of the high word zero; non-trivial = address with bits set in >= 2 of the three base fields; distinct by address",
        n,
        prop_oneof![u64_edge(), any::<u64>(), canon_va()],
        tss_case,
    );
    let n = run.cases(200_000, 8_000_000);
    run.sub(
        "dpl",
        "Descriptor::dpl() on arbitrary u64 patterns (user and system) = bits 45-46",
        n,
        prop_oneof![any::<u64>(), u64_edge()],
        dpl_case,
    );
    run.exhaustive(
        "presets",
        "the six predefined code/data descriptors and the four constructor functions decode to code/data, L/D bits, DPL, present as named",
        0u8..1,
        presets_case,
    );
    run.exhaustive(
        "layouts",
        "TaskStateSegment: size 0x68, privilege stacks at byte 4, interrupt stacks at 0x24, iomap_base at 0x66 = 0x68, everything else zero; DescriptorTablePointer: limit at 0, base at 2, 10 bytes",
        0u8..1,
        layout_case,
    );
}
