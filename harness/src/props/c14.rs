//! C14 — GDT contents, selectors and limit always agree.
use crate::engine::{outcome, CaseResult, Obs, Outcome, Run};
use crate::gen::*;
use crate::umh::{self, cpu, Op};
use crate::{ensure, ensure_eq};
use proptest::prelude::*;
use serde::{Deserialize, Serialize};
use x86_64::structures::gdt::{Descriptor, GlobalDescriptorTable};

#[derive(Debug, Clone, Serialize, Deserialize)]
pub enum App {
    User(u64),
    System(u64, u64),
}

fn app() -> impl Strategy<Value = App> {
    let v = || prop_oneof![u64_edge(), any::<u64>(), (0u64..4).prop_map(|d| 0x00af_9b00_0000_ffff | (d << 45))];
    prop_oneof![3 => v().prop_map(App::User), 2 => (v(), v()).prop_map(|(a, b)| App::System(a, b))]
}

#[derive(Debug, Clone, Serialize, Deserialize)]
pub struct Hist {
    pub cap: u8,
    /// pre-fill the table through from_raw_entries up to this many slots below capacity (for big tables)
    pub start_below_cap: u8,
    pub apps: Vec<App>,
    pub load_at: u8,
}

fn raw_entries<const MAX: usize>(g: &GlobalDescriptorTable<MAX>) -> Vec<u64> {
    g.entries().iter().map(|e| e.raw()).collect()
}

fn check_table<const MAX: usize>(g: &GlobalDescriptorTable<MAX>, model: &[u64], ctx: &str) -> CaseResult {
    ensure_eq!(raw_entries(g), model.to_vec(), "{}: entries()", ctx);
    ensure!(model.len() <= MAX, "{}: table grew beyond its capacity {}", ctx, MAX);
    ensure_eq!(model[0], 0u64, "{}: slot 0 must be the null descriptor", ctx);
    ensure_eq!(g.limit() as usize, 8 * model.len() - 1, "{}: limit()", ctx);
    Ok(())
}

fn hist_n<const MAX: usize>(h: &Hist, obs: &mut Obs) -> CaseResult {
    // start: empty() or a raw slice reaching close to the capacity
    let mut model: Vec<u64> = vec![0];
    let mut g: GlobalDescriptorTable<MAX> = if MAX > 16 || h.start_below_cap < 200 {
        let fill = MAX.saturating_sub(1 + (h.start_below_cap as usize % 6)).max(1);
        if MAX > 16 {
            for i in 1..fill {
                model.push(0x00cf_9300_0000_ffff ^ ((i as u64) << 16));
            }
            GlobalDescriptorTable::<MAX>::from_raw_entries(&model)
        } else {
            GlobalDescriptorTable::<MAX>::empty()
        }
    } else {
        GlobalDescriptorTable::<MAX>::empty()
    };
    check_table(&g, &model, "initial")?;
    let mut rejected = 0;
    let mut systems = 0;
    for (i, a) in h.apps.iter().enumerate() {
        let (d, need, low) = match a {
            App::User(v) => (Descriptor::UserSegment(*v), 1usize, *v),
            App::System(lo, hi) => (Descriptor::SystemSegment(*lo, *hi), 2usize, *lo),
        };
        let fits = model.len() + need <= MAX;
        let r = outcome(|| g.append(d));
        let ctx = format!("append #{} {:x?} (used {} of {})", i, a, model.len(), MAX);
        match r {
            Outcome::Ret(sel) => {
                ensure!(fits, "{}: accepted although it does not fit", ctx);
                let first = model.len();
                match a {
                    App::User(v) => model.push(*v),
                    App::System(lo, hi) => {
                        model.push(*lo);
                        model.push(*hi);
                        systems += 1;
                    }
                }
                let dpl = ((low >> 45) & 3) as u16;
                ensure_eq!(sel.0, ((first as u16) << 3) | dpl, "{}: selector = first slot << 3 | DPL, TI = 0", ctx);
                ensure_eq!(sel.index() as usize, first, "{}: selector index", ctx);
                ensure_eq!(sel.rpl() as u16, dpl, "{}: selector RPL = descriptor DPL", ctx);
                ensure_eq!(d.dpl() as u16, dpl, "{}: Descriptor::dpl()", ctx);
            }
            Outcome::Panic(m) => {
                ensure!(!fits, "{}: rejected although it fits: {}", ctx, m);
                rejected += 1;
            }
        }
        check_table(&g, &model, &ctx)?;
        if i as u8 == h.load_at {
            let cp = cpu();
            cp.reset();
            unsafe { g.load_unsafe() };
            let log = cp.take_log();
            ensure!(log.len() == 1 && log[0].op == Op::Lgdt, "load_unsafe() executed {:x?}", log);
            ensure_eq!(log[0].b as usize, 8 * model.len() - 1, "{}: lgdt limit", ctx);
            ensure_eq!(log[0].c, g.entries().as_ptr() as u64, "{}: lgdt base = address of slot 0", ctx);
            cp.reset();
        }
    }
    let c = g.clone();
    ensure_eq!(raw_entries(&c), model.clone(), "clone()");
    if h.load_at == 11 && MAX <= 9 {
        // load() on a 'static table
        let st: &'static GlobalDescriptorTable<MAX> = Box::leak(Box::new(g.clone()));
        let cp = cpu();
        cp.reset();
        st.load();
        let log = cp.take_log();
        ensure!(log.len() == 1 && log[0].op == Op::Lgdt, "load() executed {:x?}", log);
        ensure_eq!((log[0].b as usize, log[0].c), (8 * model.len() - 1, st.entries().as_ptr() as u64), "lgdt operand of load()");
        cp.reset();
    }
    ensure_eq!(c.limit(), g.limit(), "clone() limit");
    obs.add_evals(h.apps.len() as u64);
    obs.label(format!("MAX={}", MAX));
    if systems > 0 && rejected > 0 {
        let shape: Vec<u8> = h.apps.iter().map(|a| matches!(a, App::System(..)) as u8).collect();
        obs.nontrivial(&(MAX, h.start_below_cap % 6, shape));
    }
    Ok(())
}

pub fn hist(h: &Hist, obs: &mut Obs) -> CaseResult {
    match h.cap % 6 {
        0 => hist_n::<1>(h, obs),
        1 => hist_n::<2>(h, obs),
        2 => hist_n::<3>(h, obs),
        3 => hist_n::<8>(h, obs),
        4 => hist_n::<9>(h, obs),
        _ => hist_n::<8192>(h, obs),
    }
}

fn raw_n<const MAX: usize>(slice: &[u64], obs: &mut Obs) -> CaseResult {
    let r = outcome(|| GlobalDescriptorTable::<MAX>::from_raw_entries(slice));
    let ok = !slice.is_empty() && slice[0] == 0 && slice.len() <= MAX;
    match r {
        Outcome::Ret(g) => {
            ensure!(ok, "from_raw_entries accepted an invalid slice (len {}, first {:#x?}, MAX {})", slice.len(), slice.first(), MAX);
            check_table(&g, slice, "from_raw_entries")?;
        }
        Outcome::Panic(m) => ensure!(!ok, "from_raw_entries::<{}> rejected a valid slice of length {}: {}", MAX, slice.len(), m),
    }
    obs.label(if ok { "accepted" } else { "rejected" });
    obs.nontrivial(&(MAX, slice.len(), slice.first().map(|x| *x == 0)));
    Ok(())
}

pub fn raw_case(c: &(u8, Vec<u64>, u8, bool), obs: &mut Obs) -> CaseResult {
    let (cap, body, len_sel, zero_first) = c;
    let max = [1usize, 2, 3, 8, 9, 8192][(*cap % 6) as usize];
    // lengths 0..=MAX+1 (capped at 64 for 8192, plus the exact boundary lengths)
    let len = if max == 8192 {
        match len_sel % 8 {
            0 => 8191,
            1 => 8192,
            2 => 8193,
            _ => (*len_sel as usize) % 65,
        }
    } else {
        (*len_sel as usize) % (max + 2)
    };
    let mut slice: Vec<u64> = (0..len).map(|i| body.get(i % body.len().max(1)).copied().unwrap_or(0x1234) | 1).collect();
    if *zero_first && len > 0 {
        slice[0] = 0;
    }
    match cap % 6 {
        0 => raw_n::<1>(&slice, obs),
        1 => raw_n::<2>(&slice, obs),
        2 => raw_n::<3>(&slice, obs),
        3 => raw_n::<8>(&slice, obs),
        4 => raw_n::<9>(&slice, obs),
        _ => raw_n::<8192>(&slice, obs),
    }
}

/// the default-capacity constructors: GlobalDescriptorTable::new() / default() = empty table of capacity 8
fn default_ctor(_: &u8, obs: &mut Obs) -> CaseResult {
    let a = GlobalDescriptorTable::new();
    let b: GlobalDescriptorTable = Default::default();
    ensure_eq!(raw_entries(&a), vec![0u64], "GlobalDescriptorTable::new() entries");
    ensure_eq!(raw_entries(&b), vec![0u64], "GlobalDescriptorTable::default() entries");
    ensure_eq!((a.limit(), b.limit()), (7u16, 7u16), "limit of an empty table");
    let mut g = GlobalDescriptorTable::new();
    for i in 0..7u64 {
        let sel = g.append(Descriptor::UserSegment(i << 45));
        ensure_eq!(sel.0, (((i + 1) as u16) << 3) | (i & 3) as u16, "selector of append #{} on the default table", i);
    }
    ensure!(outcome(|| g.append(Descriptor::UserSegment(0))).is_panic(), "the default table has capacity 8");
    obs.nontrivial(&1u8);
    obs.nontrivial(&2u8);
    Ok(())
}

pub fn run(run: &mut Run) {
    umh::install();
    run.exhaustive("default_ctor", "GlobalDescriptorTable::new()/default(): an empty table of capacity 8 (null descriptor, limit 7, 7 appends fit, the 8th panics)", 0u8..1, default_ctor);
    run.assume("lgdt executed in ring 3 traps; its 10-byte operand is read by the harness decoder. Capacities are the const parameters 1, 2, 3, 8, 9, 8192 (monomorphised)");
    let n = run.cases(200_000, 8_000_000);
    run.sub(
        "appends",
        "for MAX in {1,2,3,8,9,8192}: histories of 0..12 appends of UserSegment(any u64) / SystemSegment(any u64, any u64) starting from empty() (or, for 8192, from a raw table filled to 0..5 slots below capacity), with load_unsafe() at a generated step; oracle: Vec<u64> model starting [0]: entries() raw = model after every append, selector = first_slot<<3 | DPL (bits 45-46 of the low word), TI=0, an append that does not fit panics and leaves entries()/limit() unchanged, limit = 8*len-1, clone equal, lgdt operand = (limit, address of slot 0); non-trivial = history with a system descriptor and a rejected append; distinct by (MAX, fill, descriptor-kind sequence)",
        n,
        (0u8..6, any::<u8>(), proptest::collection::vec(app(), 0..12), 0u8..12).prop_map(|(cap, start_below_cap, apps, load_at)| Hist { cap, start_below_cap, apps, load_at }),
        hist,
    );
    let n = run.cases(100_000, 4_000_000);
    run.sub(
        "from_raw",
        "raw slices of every length 0..=MAX+1 (for 8192: 0..64 and 8191/8192/8193) with zero / non-zero first entry; oracle: reproduces the slice, or panics exactly for empty / non-zero first entry / too long",
        n,
        (0u8..6, proptest::collection::vec(any::<u64>(), 1..8), any::<u8>(), prop::bool::weighted(0.8)),
        raw_case,
    );
}
