//! C07 — address arithmetic is exact-or-panic; ranges iterate exactly what they count.
use crate::engine::{outcome, CaseResult, Obs, Outcome, Run};
use crate::gen::*;
use crate::{ensure, ensure_eq};
use proptest::prelude::*;
use serde::{Deserialize, Serialize};
use x86_64::structures::paging::page::{PageRange, PageRangeInclusive};
use x86_64::structures::paging::{Page, PageSize, PhysFrame, Size1GiB, Size2MiB, Size4KiB};
use x86_64::{PhysAddr, VirtAddr};

/// Judge one operator call: a returned value must equal the exact result (which then necessarily is
/// a valid value of the type); a panic is never a violation ("exact or panics").
fn judge(what: &str, got: Outcome<u64>, exact: i128, valid: bool, obs: &mut Obs) -> CaseResult {
    match got {
        Outcome::Ret(x) => {
            ensure!(
                valid && x as i128 == exact,
                "{} returned {:#x} but the exact result is {}{:#x}{}",
                what,
                x,
                if exact < 0 { "-" } else { "" },
                exact.unsigned_abs(),
                if valid { "" } else { " (not representable: must panic)" }
            );
            if !valid {
                unreachable!()
            }
        }
        Outcome::Panic(_) => {
            if valid {
                obs.label("panicked-although-representable");
            }
        }
    }
    Ok(())
}

fn vvalid(x: i128) -> bool {
    x >= 0 && x <= u64::MAX as i128 && is_canonical(x as u64)
}
fn pvalid(x: i128) -> bool {
    x >= 0 && x < (1i128 << 52)
}
fn uvalid(x: i128) -> bool {
    x >= 0 && x <= u64::MAX as i128
}

pub fn addr_ops(c: &(u64, u64, u64, u64), obs: &mut Obs) -> CaseResult {
    let (v, p, k, other) = *c;
    let va = VirtAddr::new(v);
    let pa = PhysAddr::new(p);
    let mut nt = false;
    // VirtAddr
    let e = v as i128 + k as i128;
    nt |= !vvalid(e);
    judge(&format!("VirtAddr({:#x}) + {:#x}", v, k), outcome(|| (va + k).as_u64()), e, vvalid(e), obs)?;
    judge(&format!("VirtAddr({:#x}) += {:#x}", v, k), outcome(|| { let mut a = va; a += k; a.as_u64() }), e, vvalid(e), obs)?;
    let e = v as i128 - k as i128;
    nt |= !vvalid(e);
    judge(&format!("VirtAddr({:#x}) - {:#x}", v, k), outcome(|| (va - k).as_u64()), e, vvalid(e), obs)?;
    judge(&format!("VirtAddr({:#x}) -= {:#x}", v, k), outcome(|| { let mut a = va; a -= k; a.as_u64() }), e, vvalid(e), obs)?;
    let o = sign_extend48(other);
    let e = v as i128 - o as i128;
    nt |= !uvalid(e);
    judge(&format!("VirtAddr({:#x}) - VirtAddr({:#x})", v, o), outcome(|| va - VirtAddr::new(o)), e, uvalid(e), obs)?;
    // PhysAddr
    let e = p as i128 + k as i128;
    nt |= !pvalid(e);
    judge(&format!("PhysAddr({:#x}) + {:#x}", p, k), outcome(|| (pa + k).as_u64()), e, pvalid(e), obs)?;
    judge(&format!("PhysAddr({:#x}) += {:#x}", p, k), outcome(|| { let mut a = pa; a += k; a.as_u64() }), e, pvalid(e), obs)?;
    let e = p as i128 - k as i128;
    nt |= !pvalid(e);
    judge(&format!("PhysAddr({:#x}) - {:#x}", p, k), outcome(|| (pa - k).as_u64()), e, pvalid(e), obs)?;
    judge(&format!("PhysAddr({:#x}) -= {:#x}", p, k), outcome(|| { let mut a = pa; a -= k; a.as_u64() }), e, pvalid(e), obs)?;
    let o = other & ((1 << 52) - 1);
    let e = p as i128 - o as i128;
    nt |= !uvalid(e);
    judge(&format!("PhysAddr({:#x}) - PhysAddr({:#x})", p, o), outcome(|| pa - PhysAddr::new(o)), e, uvalid(e), obs)?;
    obs.add_evals(9);
    if nt {
        obs.nontrivial(c);
    }
    Ok(())
}

fn page_ops_s<S: PageSize>(v: u64, p: u64, k: u64, other: u64, obs: &mut Obs) -> CaseResult {
    let sz = S::SIZE as i128;
    let v = v & !(S::SIZE - 1);
    let p = p & !(S::SIZE - 1);
    let pg = Page::<S>::containing_address(VirtAddr::new(v));
    let fr = PhysFrame::<S>::containing_address(PhysAddr::new(p));
    let mut nt = false;
    let n = S::DEBUG_STR;
    let e = v as i128 + k as i128 * sz;
    nt |= !vvalid(e);
    judge(&format!("Page<{}>({:#x}) + {:#x}", n, v, k), outcome(|| (pg + k).start_address().as_u64()), e, vvalid(e), obs)?;
    judge(&format!("Page<{}>({:#x}) += {:#x}", n, v, k), outcome(|| { let mut a = pg; a += k; a.start_address().as_u64() }), e, vvalid(e), obs)?;
    let e = v as i128 - k as i128 * sz;
    nt |= !vvalid(e);
    judge(&format!("Page<{}>({:#x}) - {:#x}", n, v, k), outcome(|| (pg - k).start_address().as_u64()), e, vvalid(e), obs)?;
    judge(&format!("Page<{}>({:#x}) -= {:#x}", n, v, k), outcome(|| { let mut a = pg; a -= k; a.start_address().as_u64() }), e, vvalid(e), obs)?;
    let o = sign_extend48(other) & !(S::SIZE - 1);
    let diff = v as i128 - o as i128;
    // number of pages between two page starts (exact: both are multiples of SIZE)
    let e = if diff >= 0 { diff / sz } else { -1 };
    nt |= diff < 0;
    judge(&format!("Page<{}>({:#x}) - Page({:#x})", n, v, o), outcome(|| pg - Page::<S>::containing_address(VirtAddr::new(o))), e, diff >= 0, obs)?;
    // frames
    let e = p as i128 + k as i128 * sz;
    nt |= !pvalid(e);
    judge(&format!("PhysFrame<{}>({:#x}) + {:#x}", n, p, k), outcome(|| (fr + k).start_address().as_u64()), e, pvalid(e), obs)?;
    judge(&format!("PhysFrame<{}>({:#x}) += {:#x}", n, p, k), outcome(|| { let mut a = fr; a += k; a.start_address().as_u64() }), e, pvalid(e), obs)?;
    let e = p as i128 - k as i128 * sz;
    nt |= !pvalid(e);
    judge(&format!("PhysFrame<{}>({:#x}) - {:#x}", n, p, k), outcome(|| (fr - k).start_address().as_u64()), e, pvalid(e), obs)?;
    judge(&format!("PhysFrame<{}>({:#x}) -= {:#x}", n, p, k), outcome(|| { let mut a = fr; a -= k; a.start_address().as_u64() }), e, pvalid(e), obs)?;
    let o = (other & ((1 << 52) - 1)) & !(S::SIZE - 1);
    let diff = p as i128 - o as i128;
    let e = if diff >= 0 { diff / sz } else { -1 };
    nt |= diff < 0;
    judge(&format!("PhysFrame<{}>({:#x}) - PhysFrame({:#x})", n, p, o), outcome(|| fr - PhysFrame::<S>::containing_address(PhysAddr::new(o))), e, diff >= 0, obs)?;
    obs.add_evals(9);
    if nt {
        obs.nontrivial(&(S::SIZE, v, p, k, other));
    }
    Ok(())
}

pub fn page_ops(c: &(u8, u64, u64, u64, u64), obs: &mut Obs) -> CaseResult {
    let (s, v, p, k, o) = *c;
    match s % 3 {
        0 => page_ops_s::<Size4KiB>(v, p, k, o, obs),
        1 => page_ops_s::<Size2MiB>(v, p, k, o, obs),
        _ => page_ops_s::<Size1GiB>(v, p, k, o, obs),
    }
}

// ------------------------------------------------------------------------------------------------
// ranges
// ------------------------------------------------------------------------------------------------

#[derive(Debug, Clone, Serialize, Deserialize)]
pub struct RangeCase {
    pub size: u8,
    /// 0 lower half, 1 upper half, 2 physical
    pub space: u8,
    /// position of the range inside the space: distance (in items) of its first item from the
    /// start of the space (from_end=false) or of its last item from the last item of the space
    pub dist: u32,
    pub from_end: bool,
    pub len: u16,
    pub inclusive: bool,
    /// make it an empty/inverted range instead (start > end by this many items)
    pub inverted_by: u8,
}

pub fn range_case() -> impl Strategy<Value = RangeCase> {
    (
        size_sel(),
        0u8..3,
        prop_oneof![4 => 0u32..4, 2 => 0u32..4096, 1 => any::<u32>()],
        any::<bool>(),
        prop_oneof![3 => 0u16..6, 3 => 0u16..300, 1 => 0u16..4097],
        any::<bool>(),
        prop_oneof![9 => Just(0u8), 1 => 1u8..4],
    )
        .prop_map(|(size, space, dist, from_end, len, inclusive, inverted_by)| RangeCase {
            size,
            space,
            dist,
            from_end,
            len,
            inclusive,
            inverted_by,
        })
}

struct Collected {
    items: Vec<u64>,
    len: u64,
    size: u64,
    empty: bool,
    as4k: Option<(u64, u64, u64)>, // (start, end, len) of the converted range
}

fn run_page_range<S: PageSize>(start: u64, end: u64, inclusive: bool, cap: usize) -> Collected {
    let s = Page::<S>::containing_address(VirtAddr::new(start));
    let e = Page::<S>::containing_address(VirtAddr::new(end));
    if inclusive {
        let r: PageRangeInclusive<S> = Page::range_inclusive(s, e);
        Collected {
            len: r.len(),
            size: r.size(),
            empty: r.is_empty(),
            items: r.take(cap).map(|p| p.start_address().as_u64()).collect(),
            as4k: None,
        }
    } else {
        let r: PageRange<S> = Page::range(s, e);
        Collected {
            len: r.len(),
            size: r.size(),
            empty: r.is_empty(),
            items: r.take(cap).map(|p| p.start_address().as_u64()).collect(),
            as4k: None,
        }
    }
}

fn run_frame_range<S: PageSize>(start: u64, end: u64, inclusive: bool, cap: usize) -> Collected {
    let s = PhysFrame::<S>::containing_address(PhysAddr::new(start));
    let e = PhysFrame::<S>::containing_address(PhysAddr::new(end));
    if inclusive {
        let r = PhysFrame::range_inclusive(s, e);
        Collected {
            len: r.len(),
            size: r.size(),
            empty: r.is_empty(),
            items: r.take(cap).map(|p| p.start_address().as_u64()).collect(),
            as4k: None,
        }
    } else {
        let r = PhysFrame::range(s, e);
        Collected {
            len: r.len(),
            size: r.size(),
            empty: r.is_empty(),
            items: r.take(cap).map(|p| p.start_address().as_u64()).collect(),
            as4k: None,
        }
    }
}

pub fn ranges(c: &RangeCase, obs: &mut Obs) -> CaseResult {
    let sz = size_of_sel(c.size);
    // the space as [lo, hi) in bytes
    let (lo, hi): (u128, u128) = match c.space % 3 {
        0 => (0, 1 << 47),
        1 => (GAP_HI as u128, 1 << 64),
        _ => (0, 1 << 52),
    };
    let items_in_space = (hi - lo) / sz as u128;
    let len = (c.len as u128).min(items_in_space);
    let dist = (c.dist as u128).min(items_in_space - len.max(1));
    // index (in items from lo) of the first item
    let first = if c.from_end { items_in_space - dist - len.max(1) } else { dist };
    let (start, end_item): (u128, u128); // end_item: exclusive end index
    if c.inverted_by > 0 {
        // start after end: empty
        let inv = (c.inverted_by as u128).min(items_in_space - 1 - first.min(items_in_space - 1));
        if inv == 0 {
            return Ok(());
        }
        start = first + inv;
        end_item = first;
    } else {
        start = first;
        end_item = first + len;
    }
    let model: Vec<u64> = if c.inverted_by > 0 { vec![] } else { (start..end_item).map(|i| (lo + i * sz as u128) as u64).collect() };
    // bounds as the API takes them
    let start_addr = (lo + start * sz as u128) as u64;
    let end_addr_u128 = if c.inclusive {
        if c.inverted_by > 0 {
            lo + end_item * sz as u128
        } else if len == 0 {
            // inclusive empty: end = start - 1 item (only possible if start > 0)
            if start == 0 {
                return Ok(()); // cannot express; skip (not counted as non-trivial)
            }
            lo + (start - 1) * sz as u128
        } else {
            lo + (end_item - 1) * sz as u128
        }
    } else {
        lo + end_item * sz as u128
    };
    if end_addr_u128 >= hi {
        // an exclusive end one past the space is not a value of the type (bounds must lie in the same half)
        return Ok(());
    }
    let end_addr = end_addr_u128 as u64;
    let cap = model.len() + 3;
    let phys = c.space % 3 == 2;
    let incl = c.inclusive;
    let got = outcome(|| match (phys, c.size % 3) {
        (false, 0) => run_page_range::<Size4KiB>(start_addr, end_addr, incl, cap),
        (false, 1) => {
            let mut r = run_page_range::<Size2MiB>(start_addr, end_addr, incl, cap);
            if !incl {
                let pr = Page::<Size2MiB>::range(
                    Page::containing_address(VirtAddr::new(start_addr)),
                    Page::containing_address(VirtAddr::new(end_addr)),
                )
                .as_4kib_page_range();
                r.as4k = Some((pr.start.start_address().as_u64(), pr.end.start_address().as_u64(), pr.len()));
            }
            r
        }
        (false, _) => run_page_range::<Size1GiB>(start_addr, end_addr, incl, cap),
        (true, 0) => run_frame_range::<Size4KiB>(start_addr, end_addr, incl, cap),
        (true, 1) => run_frame_range::<Size2MiB>(start_addr, end_addr, incl, cap),
        (true, _) => run_frame_range::<Size1GiB>(start_addr, end_addr, incl, cap),
    });
    let what = format!(
        "{} {} range of {:#x}-byte items {:#x}..{}{:#x}",
        if phys { "frame" } else { "page" },
        if incl { "inclusive" } else { "exclusive" },
        sz,
        start_addr,
        if incl { "=" } else { "" },
        end_addr
    );
    let r = match got {
        Outcome::Ret(r) => r,
        Outcome::Panic(m) => return Err(format!("{} panicked while iterating / counting: {}", what, m)),
    };
    ensure_eq!(r.items, model, "{}: items yielded", what);
    ensure_eq!(r.len, model.len() as u64, "{}: len()", what);
    ensure_eq!(r.size, model.len() as u64 * sz, "{}: size()", what);
    ensure_eq!(r.empty, model.is_empty(), "{}: is_empty()", what);
    if let Some((s4, e4, l4)) = r.as4k {
        ensure_eq!(s4, start_addr, "as_4kib_page_range start");
        ensure_eq!(e4, end_addr, "as_4kib_page_range end");
        ensure_eq!(l4 * 4096, model.len() as u64 * sz, "as_4kib_page_range covers the same bytes");
    }
    obs.add_evals(model.len() as u64);
    let last_item = c.inverted_by == 0 && len > 0 && end_item == items_in_space;
    if last_item {
        obs.label(match c.space % 3 {
            0 => "ends-at-last-page-of-lower-half",
            1 => "ends-at-last-page-of-upper-half",
            _ => "ends-at-last-physical-frame",
        });
    }
    if model.is_empty() {
        obs.label("empty");
    }
    if last_item || (start == 0 && len > 0) {
        obs.nontrivial(&(c.size % 3, c.space % 3, start, len, incl));
    }
    Ok(())
}

pub fn run(run: &mut Run) {
    let n = run.cases(400_000, 16_000_000);
    run.sub(
        "addr_ops",
        "VirtAddr/PhysAddr + - += -= with edge-biased u64 offsets and the two-operand subtractions; oracle: i128 exact result; a returned value must equal it and be a valid value of the type, a panic is never a violation; non-trivial = at least one exact result not representable; distinct by operands. Runs in overflow-checking (chk) and release-like (rel) builds",
        n,
        (canon_va(), phys(), prop_oneof![u64_edge(), small_k()], u64_edge()),
        addr_ops,
    );
    let n = run.cases(400_000, 16_000_000);
    run.sub(
        "page_ops",
        "Page/PhysFrame<4K,2M,1G> + - += -= u64 (counts small / edge / near u64::MAX/SIZE / >=2^48/SIZE) and page - page, frame - frame; oracle: i128 exact (start + n*SIZE); non-trivial = an exact result not representable",
        n,
        (size_sel(), canon_va(), phys(), prop_oneof![count(), small_k()], u64_edge()),
        page_ops,
    );
    let n = run.cases(20_000, 800_000);
    run.sub(
        "ranges",
        "exclusive and inclusive Page/PhysFrame ranges of the three sizes inside one half / below 2^52, length 0..4096, placed 0..4096 items from the first or last item of the space (so ranges that end at the last page of either half or at the last physical frame are frequent), plus inverted (empty) ranges; oracle: the model's ascending list, len()=count, size()=len*SIZE, is_empty, as_4kib_page_range covers the same bytes; no panic; non-trivial = contains the first or last item of its space; distinct by (size,space,start,len,inclusive)",
        n,
        range_case(),
        ranges,
    );
}
