//! C03 — address values are always valid: canonical virtual, 52-bit physical.
use crate::engine::{outcome, CaseResult, Obs, Outcome, Run};
use crate::gen::*;
use crate::{ensure, ensure_eq};
use proptest::prelude::*;
use serde::{Deserialize, Serialize};
use std::iter::Step;
use x86_64::structures::idt::{Entry, HandlerFunc};
use x86_64::structures::paging::page_table::PageTableEntry;
use x86_64::structures::paging::{
    Page, PageTableIndex, PhysFrame, Size1GiB, Size2MiB, Size4KiB,
};
use x86_64::{PhysAddr, VirtAddr};

pub fn near_boundary(x: u64) -> bool {
    const B: [u64; 7] = [
        0,
        GAP_LO,
        GAP_HI,
        1 << 48,
        1 << 52,
        1 << 63,
        u64::MAX,
    ];
    B.iter().any(|b| x.wrapping_sub(*b) < (1 << 13) || b.wrapping_sub(x) < (1 << 13))
}

fn valid_v(x: u64) -> bool {
    // independent predicate: bits 47..=63 all equal
    let top = (x as i64) >> 47;
    top == 0 || top == -1
}
fn valid_p(x: u64) -> bool {
    x >> 52 == 0
}

pub fn ctor(x: &u64, obs: &mut Obs) -> CaseResult {
    let x = *x;
    // ---- VirtAddr
    let t = VirtAddr::try_new(x);
    let n = outcome(|| VirtAddr::new(x));
    let tr = VirtAddr::new_truncate(x).as_u64();
    if valid_v(x) {
        match t {
            Ok(v) => ensure_eq!(v.as_u64(), x, "VirtAddr::try_new({:#x}) must return its input", x),
            Err(_) => return Err(format!("VirtAddr::try_new({:#x}) rejected a canonical address", x)),
        }
        match &n {
            Outcome::Ret(v) => ensure_eq!(v.as_u64(), x, "VirtAddr::new({:#x})", x),
            Outcome::Panic(m) => return Err(format!("VirtAddr::new({:#x}) panicked on canonical input: {}", x, m)),
        }
        ensure_eq!(tr, x, "VirtAddr::new_truncate({:#x}) must agree with the checked constructor", x);
    } else {
        ensure!(t.is_err(), "VirtAddr::try_new({:#x}) accepted a non-canonical address", x);
        if let Err(e) = t {
            ensure_eq!(e.0, x, "VirtAddrNotValid payload");
        }
        ensure!(n.is_panic(), "VirtAddr::new({:#x}) did not panic on a non-canonical address", x);
    }
    ensure!(valid_v(tr), "VirtAddr::new_truncate({:#x}) = {:#x} is not canonical", x, tr);
    ensure_eq!(tr & 0xffff_ffff_ffff, x & 0xffff_ffff_ffff, "new_truncate must keep the low 48 bits of {:#x}", x);
    ensure_eq!(VirtAddr::new_truncate(tr).as_u64(), tr, "VirtAddr::new_truncate not idempotent on {:#x}", x);
    // depends only on the low 48 bits (metamorphic): flip every upper bit pattern derived from x
    for m in [0u64, 0xffff, 0x8000, 0x0001, (x >> 7) & 0xffff] {
        let y = (x & 0xffff_ffff_ffff) | (m << 48);
        ensure_eq!(VirtAddr::new_truncate(y).as_u64(), tr, "VirtAddr::new_truncate depends on bits 48..64 ({:#x} vs {:#x})", x, y);
    }
    // from_ptr = new on the pointer value
    let fp = outcome(|| VirtAddr::from_ptr(x as *const u8));
    match (&fp, valid_v(x)) {
        (Outcome::Ret(v), true) => ensure_eq!(v.as_u64(), x, "from_ptr"),
        (Outcome::Panic(_), false) => {}
        _ => return Err(format!("VirtAddr::from_ptr({:#x}): accepted/rejected wrongly: {:?}", x, fp)),
    }
    if let Outcome::Ret(v) = &fp {
        ensure_eq!(v.as_ptr::<u8>() as u64, x, "as_ptr round trip");
        ensure_eq!(v.as_mut_ptr::<u8>() as u64, x, "as_mut_ptr round trip");
    }
    // ---- PhysAddr
    let t = PhysAddr::try_new(x);
    let n = outcome(|| PhysAddr::new(x));
    let tr = PhysAddr::new_truncate(x).as_u64();
    if valid_p(x) {
        match t {
            Ok(v) => ensure_eq!(v.as_u64(), x, "PhysAddr::try_new({:#x})", x),
            Err(_) => return Err(format!("PhysAddr::try_new({:#x}) rejected a valid address", x)),
        }
        match &n {
            Outcome::Ret(v) => ensure_eq!(v.as_u64(), x, "PhysAddr::new({:#x})", x),
            Outcome::Panic(m) => return Err(format!("PhysAddr::new({:#x}) panicked on valid input: {}", x, m)),
        }
        ensure_eq!(tr, x, "PhysAddr::new_truncate({:#x}) must agree with the checked constructor", x);
    } else {
        ensure!(t.is_err(), "PhysAddr::try_new({:#x}) accepted an address with bits 52.. set", x);
        if let Err(e) = t {
            ensure_eq!(e.0, x, "PhysAddrNotValid payload");
        }
        ensure!(n.is_panic(), "PhysAddr::new({:#x}) did not panic", x);
    }
    ensure!(valid_p(tr), "PhysAddr::new_truncate({:#x}) = {:#x} has bits 52.. set", x, tr);
    ensure_eq!(tr, x & ((1 << 52) - 1), "PhysAddr::new_truncate must keep the low 52 bits");
    ensure_eq!(PhysAddr::new_truncate(tr).as_u64(), tr, "PhysAddr::new_truncate not idempotent");
    for m in [0u64, 0xfff, 0x800, 0x001, (x >> 5) & 0xfff] {
        let y = (x & ((1 << 52) - 1)) | (m << 52);
        ensure_eq!(PhysAddr::new_truncate(y).as_u64(), tr, "PhysAddr::new_truncate depends on bits 52..64");
    }
    ensure_eq!(VirtAddr::zero().as_u64(), 0, "VirtAddr::zero");
    ensure_eq!(PhysAddr::zero().as_u64(), 0, "PhysAddr::zero");
    ensure_eq!(VirtAddr::new_truncate(x).is_null(), (x & 0xffff_ffff_ffff) == 0, "is_null");

    obs.label(if valid_v(x) { "virt-valid" } else { "virt-invalid" });
    obs.label(if valid_p(x) { "phys-valid" } else { "phys-invalid" });
    if near_boundary(x) {
        obs.nontrivial(&x);
        obs.label("near-boundary");
    }
    Ok(())
}

// -------------------------------------------------------------------------------------------------
// programs
// -------------------------------------------------------------------------------------------------

#[derive(Debug, Clone, Serialize, Deserialize)]
pub enum Op {
    VNew(u64),
    VTry(u64),
    VTrunc(u64),
    VZero,
    VFromPtr(u64),
    VAlignUp(u8, u8),
    VAlignDown(u8, u8),
    VAdd(u8, u64),
    VSub(u8, u64),
    VAddAssign(u8, u64),
    VSubAssign(u8, u64),
    VFwd(u8, u64),
    VBwd(u8, u64),
    VFwdChecked(u8, u64),
    VBwdChecked(u8, u64),
    PNew(u64),
    PTry(u64),
    PTrunc(u64),
    PZero,
    PAlignUp(u8, u8),
    PAlignDown(u8, u8),
    PAdd(u8, u64),
    PSub(u8, u64),
    PAddAssign(u8, u64),
    PSubAssign(u8, u64),
    /// page ops: (size selector, source register, operand)
    PgContaining(u8, u8),
    PgFromStart(u8, u8),
    PgAdd(u8, u8, u64),
    PgSub(u8, u8, u64),
    PgAddAssign(u8, u8, u64),
    PgSubAssign(u8, u8, u64),
    PgFwd(u8, u8, u64),
    PgBwd(u8, u8, u64),
    PgFwdChecked(u8, u8, u64),
    PgBwdChecked(u8, u8, u64),
    PgFromIdx(u8, u16, u16, u16, u16),
    PgStart(u8, u8),
    FrContaining(u8, u8),
    FrFromStart(u8, u8),
    FrAdd(u8, u8, u64),
    FrSub(u8, u8, u64),
    FrAddAssign(u8, u8, u64),
    FrSubAssign(u8, u8, u64),
    FrStart(u8, u8),
    /// range iteration: (size, anchor selector, offset from the anchor, extra items, inclusive?, next() calls);
    /// every yielded item and the public `start`/`end` fields after every call are address values
    PgRange(u8, u8, u8, u8, bool, u8),
    FrRange(u8, u8, u8, u8, bool, u8),
    /// entry-derived addresses from arbitrary raw bits
    PteAddr(u64),
    IdtHandlerAddr(u64, u64),
}

fn reg() -> impl Strategy<Value = u8> {
    0u8..4
}
fn lg() -> impl Strategy<Value = u8> {
    0u8..64
}

pub fn op() -> impl Strategy<Value = Op> {
    let e = u64_edge;
    prop_oneof![
        prop_oneof![
            e().prop_map(Op::VNew),
            canon_va().prop_map(Op::VNew),
            e().prop_map(Op::VTry),
            e().prop_map(Op::VTrunc),
            Just(Op::VZero),
            canon_va().prop_map(Op::VFromPtr),
            (reg(), lg()).prop_map(|(r, l)| Op::VAlignUp(r, l)),
            (reg(), lg()).prop_map(|(r, l)| Op::VAlignDown(r, l)),
            (reg(), e()).prop_map(|(r, x)| Op::VAdd(r, x)),
            (reg(), e()).prop_map(|(r, x)| Op::VSub(r, x)),
            (reg(), small_k()).prop_map(|(r, x)| Op::VAdd(r, x)),
            (reg(), small_k()).prop_map(|(r, x)| Op::VSub(r, x)),
            (reg(), e()).prop_map(|(r, x)| Op::VAddAssign(r, x)),
            (reg(), e()).prop_map(|(r, x)| Op::VSubAssign(r, x)),
        ],
        prop_oneof![
            (reg(), count()).prop_map(|(r, x)| Op::VFwd(r, x)),
            (reg(), count()).prop_map(|(r, x)| Op::VBwd(r, x)),
            (reg(), count()).prop_map(|(r, x)| Op::VFwdChecked(r, x)),
            (reg(), count()).prop_map(|(r, x)| Op::VBwdChecked(r, x)),
            e().prop_map(Op::PNew),
            phys().prop_map(Op::PNew),
            e().prop_map(Op::PTry),
            e().prop_map(Op::PTrunc),
            Just(Op::PZero),
            (reg(), lg()).prop_map(|(r, l)| Op::PAlignUp(r, l)),
            (reg(), lg()).prop_map(|(r, l)| Op::PAlignDown(r, l)),
            (reg(), e()).prop_map(|(r, x)| Op::PAdd(r, x)),
            (reg(), e()).prop_map(|(r, x)| Op::PSub(r, x)),
            (reg(), e()).prop_map(|(r, x)| Op::PAddAssign(r, x)),
            (reg(), e()).prop_map(|(r, x)| Op::PSubAssign(r, x)),
        ],
        prop_oneof![
            (size_sel(), reg()).prop_map(|(s, r)| Op::PgContaining(s, r)),
            (size_sel(), reg()).prop_map(|(s, r)| Op::PgFromStart(s, r)),
            (size_sel(), reg(), count()).prop_map(|(s, r, x)| Op::PgAdd(s, r, x)),
            (size_sel(), reg(), count()).prop_map(|(s, r, x)| Op::PgSub(s, r, x)),
            (size_sel(), reg(), count()).prop_map(|(s, r, x)| Op::PgAddAssign(s, r, x)),
            (size_sel(), reg(), count()).prop_map(|(s, r, x)| Op::PgSubAssign(s, r, x)),
            (size_sel(), reg(), count()).prop_map(|(s, r, x)| Op::PgFwd(s, r, x)),
            (size_sel(), reg(), count()).prop_map(|(s, r, x)| Op::PgBwd(s, r, x)),
            (size_sel(), reg(), count()).prop_map(|(s, r, x)| Op::PgFwdChecked(s, r, x)),
            (size_sel(), reg(), count()).prop_map(|(s, r, x)| Op::PgBwdChecked(s, r, x)),
            (size_sel(), idx9(), idx9(), idx9(), idx9())
                .prop_map(|(s, a, b, c, d)| Op::PgFromIdx(s, a, b, c, d)),
            (size_sel(), reg()).prop_map(|(s, r)| Op::PgStart(s, r)),
        ],
        prop_oneof![
            (size_sel(), reg()).prop_map(|(s, r)| Op::FrContaining(s, r)),
            (size_sel(), reg()).prop_map(|(s, r)| Op::FrFromStart(s, r)),
            (size_sel(), reg(), count()).prop_map(|(s, r, x)| Op::FrAdd(s, r, x)),
            (size_sel(), reg(), count()).prop_map(|(s, r, x)| Op::FrSub(s, r, x)),
            (size_sel(), reg(), count()).prop_map(|(s, r, x)| Op::FrAddAssign(s, r, x)),
            (size_sel(), reg(), count()).prop_map(|(s, r, x)| Op::FrSubAssign(s, r, x)),
            (size_sel(), reg()).prop_map(|(s, r)| Op::FrStart(s, r)),
            (size_sel(), 0u8..8, 0u8..4, 0u8..6, any::<bool>(), 1u8..9).prop_map(|(s, a, b, n, i, k)| Op::PgRange(s, a, b, n, i, k)),
            (size_sel(), 0u8..8, 0u8..4, 0u8..6, any::<bool>(), 1u8..9).prop_map(|(s, a, b, n, i, k)| Op::FrRange(s, a, b, n, i, k)),
            any::<u64>().prop_map(Op::PteAddr),
            e().prop_map(Op::PteAddr),
            (any::<u64>(), any::<u64>()).prop_map(|(a, b)| Op::IdtHandlerAddr(a, b)),
        ],
    ]
}

/// The register file. Page/frame registers are per size.
pub struct Regs {
    pub v: [VirtAddr; 4],
    pub p: [PhysAddr; 4],
    pub pg4k: [Page<Size4KiB>; 4],
    pub pg2m: [Page<Size2MiB>; 4],
    pub pg1g: [Page<Size1GiB>; 4],
    pub fr4k: [PhysFrame<Size4KiB>; 4],
    pub fr2m: [PhysFrame<Size2MiB>; 4],
    pub fr1g: [PhysFrame<Size1GiB>; 4],
    pub wr: usize,
}

impl Regs {
    pub fn new() -> Regs {
        let v0 = VirtAddr::zero();
        let p0 = PhysAddr::zero();
        Regs {
            v: [v0; 4],
            p: [p0; 4],
            pg4k: [Page::containing_address(v0); 4],
            pg2m: [Page::containing_address(v0); 4],
            pg1g: [Page::containing_address(v0); 4],
            fr4k: [PhysFrame::containing_address(p0); 4],
            fr2m: [PhysFrame::containing_address(p0); 4],
            fr1g: [PhysFrame::containing_address(p0); 4],
            wr: 0,
        }
    }
}

macro_rules! with_pages {
    ($regs:expr, $sel:expr, |$arr:ident, $S:ident| $body:expr) => {
        match $sel % 3 {
            0 => {
                let $arr = &mut $regs.pg4k;
                type $S = Size4KiB;
                $body
            }
            1 => {
                let $arr = &mut $regs.pg2m;
                type $S = Size2MiB;
                $body
            }
            _ => {
                let $arr = &mut $regs.pg1g;
                type $S = Size1GiB;
                $body
            }
        }
    };
}
macro_rules! with_frames {
    ($regs:expr, $sel:expr, |$arr:ident, $S:ident| $body:expr) => {
        match $sel % 3 {
            0 => {
                let $arr = &mut $regs.fr4k;
                type $S = Size4KiB;
                $body
            }
            1 => {
                let $arr = &mut $regs.fr2m;
                type $S = Size2MiB;
                $body
            }
            _ => {
                let $arr = &mut $regs.fr1g;
                type $S = Size1GiB;
                $body
            }
        }
    };
}

#[derive(Debug, Clone, Copy, PartialEq)]
pub enum Produced {
    None,
    Panicked,
    V(u64),
    P(u64),
    Page(u64, u64),
    Frame(u64, u64),
}

fn usz(x: u64) -> usize {
    x as usize
}

/// Execute one op on the register file; returns what it produced.
pub fn exec(regs: &mut Regs, op: &Op) -> Produced {
    let w = regs.wr % 4;
    regs.wr += 1;
    macro_rules! v {
        ($e:expr) => {{
            match outcome(|| $e) {
                Outcome::Ret(x) => {
                    let x: VirtAddr = x;
                    regs.v[w] = x;
                    Produced::V(x.as_u64())
                }
                Outcome::Panic(_) => Produced::Panicked,
            }
        }};
    }
    macro_rules! p {
        ($e:expr) => {{
            match outcome(|| $e) {
                Outcome::Ret(x) => {
                    let x: PhysAddr = x;
                    regs.p[w] = x;
                    Produced::P(x.as_u64())
                }
                Outcome::Panic(_) => Produced::Panicked,
            }
        }};
    }
    macro_rules! vopt {
        ($e:expr) => {{
            match outcome(|| $e) {
                Outcome::Ret(Some(x)) => {
                    let x: VirtAddr = x;
                    regs.v[w] = x;
                    Produced::V(x.as_u64())
                }
                Outcome::Ret(None) => Produced::None,
                Outcome::Panic(_) => Produced::Panicked,
            }
        }};
    }
    macro_rules! pg {
        ($sel:expr, |$arr:ident, $S:ident| $e:expr) => {{
            with_pages!(regs, $sel, |$arr, $S| {
                match outcome(|| $e) {
                    Outcome::Ret(Some(x)) => {
                        let x: Page<$S> = x;
                        $arr[w] = x;
                        Produced::Page(x.start_address().as_u64(), <$S as x86_64::structures::paging::PageSize>::SIZE)
                    }
                    Outcome::Ret(None) => Produced::None,
                    Outcome::Panic(_) => Produced::Panicked,
                }
            })
        }};
    }
    macro_rules! fr {
        ($sel:expr, |$arr:ident, $S:ident| $e:expr) => {{
            with_frames!(regs, $sel, |$arr, $S| {
                match outcome(|| $e) {
                    Outcome::Ret(Some(x)) => {
                        let x: PhysFrame<$S> = x;
                        $arr[w] = x;
                        Produced::Frame(x.start_address().as_u64(), <$S as x86_64::structures::paging::PageSize>::SIZE)
                    }
                    Outcome::Ret(None) => Produced::None,
                    Outcome::Panic(_) => Produced::Panicked,
                }
            })
        }};
    }
    let rv = |r: &u8| regs.v[(*r % 4) as usize];
    let rp = |r: &u8| regs.p[(*r % 4) as usize];
    match op {
        Op::VNew(x) => v!(VirtAddr::new(*x)),
        Op::VTry(x) => vopt!(VirtAddr::try_new(*x).ok()),
        Op::VTrunc(x) => v!(VirtAddr::new_truncate(*x)),
        Op::VZero => v!(VirtAddr::zero()),
        Op::VFromPtr(x) => v!(VirtAddr::from_ptr(*x as *const u32)),
        Op::VAlignUp(r, l) => {
            let a = rv(r);
            v!(a.align_up(1u64 << (*l % 64)))
        }
        Op::VAlignDown(r, l) => {
            let a = rv(r);
            v!(a.align_down(1u64 << (*l % 64)))
        }
        Op::VAdd(r, x) => {
            let a = rv(r);
            v!(a + *x)
        }
        Op::VSub(r, x) => {
            let a = rv(r);
            v!(a - *x)
        }
        Op::VAddAssign(r, x) => {
            let mut a = rv(r);
            v!({
                a += *x;
                a
            })
        }
        Op::VSubAssign(r, x) => {
            let mut a = rv(r);
            v!({
                a -= *x;
                a
            })
        }
        Op::VFwd(r, x) => {
            let a = rv(r);
            v!(Step::forward(a, usz(*x)))
        }
        Op::VBwd(r, x) => {
            let a = rv(r);
            v!(Step::backward(a, usz(*x)))
        }
        Op::VFwdChecked(r, x) => {
            let a = rv(r);
            vopt!(Step::forward_checked(a, usz(*x)))
        }
        Op::VBwdChecked(r, x) => {
            let a = rv(r);
            vopt!(Step::backward_checked(a, usz(*x)))
        }
        Op::PNew(x) => p!(PhysAddr::new(*x)),
        Op::PTry(x) => match PhysAddr::try_new(*x) {
            Ok(a) => p!(a),
            Err(_) => Produced::None,
        },
        Op::PTrunc(x) => p!(PhysAddr::new_truncate(*x)),
        Op::PZero => p!(PhysAddr::zero()),
        Op::PAlignUp(r, l) => {
            let a = rp(r);
            p!(a.align_up(1u64 << (*l % 64)))
        }
        Op::PAlignDown(r, l) => {
            let a = rp(r);
            p!(a.align_down(1u64 << (*l % 64)))
        }
        Op::PAdd(r, x) => {
            let a = rp(r);
            p!(a + *x)
        }
        Op::PSub(r, x) => {
            let a = rp(r);
            p!(a - *x)
        }
        Op::PAddAssign(r, x) => {
            let mut a = rp(r);
            p!({
                a += *x;
                a
            })
        }
        Op::PSubAssign(r, x) => {
            let mut a = rp(r);
            p!({
                a -= *x;
                a
            })
        }
        Op::PgContaining(s, r) => {
            let a = rv(r);
            pg!(*s, |arr, S| Some(Page::<S>::containing_address(a)))
        }
        Op::PgFromStart(s, r) => {
            let a = rv(r);
            pg!(*s, |arr, S| Page::<S>::from_start_address(a).ok())
        }
        Op::PgAdd(s, r, x) => pg!(*s, |arr, S| Some(arr[(*r % 4) as usize] + *x)),
        Op::PgSub(s, r, x) => pg!(*s, |arr, S| Some(arr[(*r % 4) as usize] - *x)),
        Op::PgAddAssign(s, r, x) => pg!(*s, |arr, S| {
            let mut a = arr[(*r % 4) as usize];
            a += *x;
            Some(a)
        }),
        Op::PgSubAssign(s, r, x) => pg!(*s, |arr, S| {
            let mut a = arr[(*r % 4) as usize];
            a -= *x;
            Some(a)
        }),
        Op::PgFwd(s, r, x) => pg!(*s, |arr, S| Some(Step::forward(arr[(*r % 4) as usize], usz(*x)))),
        Op::PgBwd(s, r, x) => pg!(*s, |arr, S| Some(Step::backward(arr[(*r % 4) as usize], usz(*x)))),
        Op::PgFwdChecked(s, r, x) => pg!(*s, |arr, S| Step::forward_checked(arr[(*r % 4) as usize], usz(*x))),
        Op::PgBwdChecked(s, r, x) => pg!(*s, |arr, S| Step::backward_checked(arr[(*r % 4) as usize], usz(*x))),
        Op::PgFromIdx(s, a, b, c, d) => {
            let (a, b, c, d) = (
                PageTableIndex::new(*a % 512),
                PageTableIndex::new(*b % 512),
                PageTableIndex::new(*c % 512),
                PageTableIndex::new(*d % 512),
            );
            match *s % 3 {
                0 => match outcome(|| Page::from_page_table_indices(a, b, c, d)) {
                    Outcome::Ret(x) => {
                        regs.pg4k[w] = x;
                        Produced::Page(x.start_address().as_u64(), 4096)
                    }
                    Outcome::Panic(_) => Produced::Panicked,
                },
                1 => match outcome(|| Page::from_page_table_indices_2mib(a, b, c)) {
                    Outcome::Ret(x) => {
                        regs.pg2m[w] = x;
                        Produced::Page(x.start_address().as_u64(), 1 << 21)
                    }
                    Outcome::Panic(_) => Produced::Panicked,
                },
                _ => match outcome(|| Page::from_page_table_indices_1gib(a, b)) {
                    Outcome::Ret(x) => {
                        regs.pg1g[w] = x;
                        Produced::Page(x.start_address().as_u64(), 1 << 30)
                    }
                    Outcome::Panic(_) => Produced::Panicked,
                },
            }
        }
        Op::PgStart(s, r) => {
            let a = with_pages!(regs, *s, |arr, _S| arr[(*r % 4) as usize].start_address());
            v!(a)
        }
        Op::FrContaining(s, r) => {
            let a = rp(r);
            fr!(*s, |arr, S| Some(PhysFrame::<S>::containing_address(a)))
        }
        Op::FrFromStart(s, r) => {
            let a = rp(r);
            fr!(*s, |arr, S| PhysFrame::<S>::from_start_address(a).ok())
        }
        Op::FrAdd(s, r, x) => fr!(*s, |arr, S| Some(arr[(*r % 4) as usize] + *x)),
        Op::FrSub(s, r, x) => fr!(*s, |arr, S| Some(arr[(*r % 4) as usize] - *x)),
        Op::FrAddAssign(s, r, x) => fr!(*s, |arr, S| {
            let mut a = arr[(*r % 4) as usize];
            a += *x;
            Some(a)
        }),
        Op::FrSubAssign(s, r, x) => fr!(*s, |arr, S| {
            let mut a = arr[(*r % 4) as usize];
            a -= *x;
            Some(a)
        }),
        Op::FrStart(s, r) => {
            let a = with_frames!(regs, *s, |arr, _S| arr[(*r % 4) as usize].start_address());
            p!(a)
        }
        Op::PgRange(s, anchor, back, n, incl, calls) => {
            with_pages!(regs, *s, |arr, S| {
                let size = <S as x86_64::structures::paging::PageSize>::SIZE;
                let back = *back as u64;
                // anchors 0..3: a register; 4: last page below the gap, 5: very last page, 6: first page, 7: first page above the gap
                let start: Page<S> = match *anchor {
                    0..=3 => arr[*anchor as usize],
                    4 => Page::containing_address(VirtAddr::new(0x0000_7fff_ffff_ffff)) - back,
                    5 => Page::containing_address(VirtAddr::new(u64::MAX)) - back,
                    6 => Page::containing_address(VirtAddr::zero()) + back,
                    _ => Page::containing_address(VirtAddr::new(0xffff_8000_0000_0000)) + back,
                };
                let end: Page<S> = Step::forward_checked(start, *n as usize).unwrap_or(start);
                let mut seen: Vec<Page<S>> = vec![];
                let r = outcome(|| {
                    let mut out: Vec<Page<S>> = vec![];
                    if *incl {
                        let mut r = Page::range_inclusive(start, end);
                        for _ in 0..*calls {
                            let item = r.next();
                            out.extend(item);
                            out.push(r.start);
                            out.push(r.end);
                            if item.is_none() {
                                break;
                            }
                        }
                    } else {
                        let mut r = Page::range(start, end);
                        for _ in 0..*calls {
                            let item = r.next();
                            out.extend(item);
                            out.push(r.start);
                            out.push(r.end);
                            if item.is_none() {
                                break;
                            }
                        }
                    }
                    out
                });
                match r {
                    Outcome::Ret(v) => seen = v,
                    Outcome::Panic(_) => {}
                }
                let bad = seen.iter().find(|p| !valid_v(p.start_address().as_u64()) || p.start_address().as_u64() % size != 0);
                match bad.or(seen.last()) {
                    Some(p) => {
                        arr[w] = *p;
                        Produced::Page(p.start_address().as_u64(), size)
                    }
                    None => Produced::Panicked,
                }
            })
        }
        Op::FrRange(s, anchor, back, n, incl, calls) => {
            with_frames!(regs, *s, |arr, S| {
                let size = <S as x86_64::structures::paging::PageSize>::SIZE;
                let back = *back as u64;
                let start: PhysFrame<S> = match *anchor {
                    0..=3 => arr[*anchor as usize],
                    4 | 5 => PhysFrame::containing_address(PhysAddr::new((1u64 << 52) - 1)) - back,
                    _ => PhysFrame::containing_address(PhysAddr::zero()) + back,
                };
                let last: PhysFrame<S> = PhysFrame::containing_address(PhysAddr::new((1u64 << 52) - 1));
                let room = (last.start_address().as_u64() - start.start_address().as_u64()) / size;
                let end: PhysFrame<S> = start + (*n as u64).min(room);
                let mut seen: Vec<PhysFrame<S>> = vec![];
                let r = outcome(|| {
                    let mut out: Vec<PhysFrame<S>> = vec![];
                    if *incl {
                        let mut r = PhysFrame::range_inclusive(start, end);
                        for _ in 0..*calls {
                            let item = r.next();
                            out.extend(item);
                            out.push(r.start);
                            out.push(r.end);
                            if item.is_none() {
                                break;
                            }
                        }
                    } else {
                        let mut r = PhysFrame::range(start, end);
                        for _ in 0..*calls {
                            let item = r.next();
                            out.extend(item);
                            out.push(r.start);
                            out.push(r.end);
                            if item.is_none() {
                                break;
                            }
                        }
                    }
                    out
                });
                match r {
                    Outcome::Ret(v) => seen = v,
                    Outcome::Panic(_) => {}
                }
                let bad = seen.iter().find(|p| !valid_p(p.start_address().as_u64()) || p.start_address().as_u64() % size != 0);
                match bad.or(seen.last()) {
                    Some(p) => {
                        arr[w] = *p;
                        Produced::Frame(p.start_address().as_u64(), size)
                    }
                    None => Produced::Panicked,
                }
            })
        }
        Op::PteAddr(raw) => {
            let e: PageTableEntry = unsafe { core::mem::transmute::<u64, PageTableEntry>(*raw) };
            p!(e.addr())
        }
        Op::IdtHandlerAddr(a, b) => {
            let e: Entry<HandlerFunc> = unsafe { core::mem::transmute::<[u64; 2], Entry<HandlerFunc>>([*a, *b]) };
            v!(e.handler_addr())
        }
    }
}

fn check_produced(p: &Produced, op: &Op, i: usize) -> CaseResult {
    match *p {
        Produced::V(x) => ensure!(valid_v(x), "step {} {:x?} returned non-canonical VirtAddr {:#x}", i, op, x),
        Produced::P(x) => ensure!(valid_p(x), "step {} {:x?} returned PhysAddr {:#x} with bits 52.. set", i, op, x),
        Produced::Page(x, sz) => {
            ensure!(valid_v(x), "step {} {:x?} returned a page with non-canonical start {:#x}", i, op, x);
            ensure!(x % sz == 0, "step {} {:x?} returned a page whose start {:#x} is not aligned to {:#x}", i, op, x, sz);
        }
        Produced::Frame(x, sz) => {
            ensure!(valid_p(x), "step {} {:x?} returned a frame with start {:#x} >= 2^52", i, op, x);
            ensure!(x % sz == 0, "step {} {:x?} returned a frame whose start {:#x} is not aligned to {:#x}", i, op, x, sz);
        }
        _ => {}
    }
    Ok(())
}

pub fn prog(ops: &Vec<Op>, obs: &mut Obs) -> CaseResult {
    let mut regs = Regs::new();
    let mut shape: Vec<(u8, u8)> = vec![];
    let mut nt = false;
    for (i, op) in ops.iter().enumerate() {
        let p = exec(&mut regs, op);
        check_produced(&p, op, i)?;
        let kind = match p {
            Produced::None => 0u8,
            Produced::Panicked => 1,
            Produced::V(x) | Produced::P(x) | Produced::Page(x, _) | Produced::Frame(x, _) => {
                if near_boundary(x) {
                    nt = true;
                    3
                } else {
                    2
                }
            }
        };
        if kind == 1 {
            nt = true; // exact result outside the valid set (or rejected input)
        }
        shape.push((op_tag(op), kind));
    }
    obs.add_evals(ops.len() as u64);
    if nt {
        obs.nontrivial(&shape);
        obs.label("prog-nontrivial");
    }
    Ok(())
}

pub fn op_tag(op: &Op) -> u8 {
    // discriminant via serde-free trick: Debug name hash is overkill; a manual small table instead
    let name = format!("{:?}", op);
    let end = name.find('(').unwrap_or(name.len());
    (crate::engine::hash_of(&&name[..end]) & 0xff) as u8
}

pub fn run(run: &mut Run) {
    let n = run.cases(1_500_000, 60_000_000);
    run.sub(
        "ctor",
        "every address constructor on edge-biased u64 (35% uniform, 45% boundary±k for 23 boundaries incl. gap ends/2^48/2^52/2^64, 20% bit masks); oracle: independent bit predicate, accept-iff-valid, truncation idempotent + invariant under upper bits; non-trivial = input within 2^13 of a boundary; distinct by input value",
        n,
        u64_edge(),
        ctor,
    );
    let n = run.cases(150_000, 6_000_000);
    run.sub(
        "prog",
        "programs of 1..24 safe operations (48 kinds: constructors, align, + - += -=, Step fwd/bwd[_checked], page/frame containing/from_start/arith/step/from_indices/start_address for all 3 sizes, page/frame range and range_inclusive iteration anchored at registers, the gap ends, the first and the last page/frame - every yielded item and the public start/end fields after every next() -, PageTableEntry::addr and idt Entry::handler_addr on raw bits) over a register file; oracle: every returned value canonical / <2^52 / size-aligned; non-trivial = a step panicked/was rejected or produced a value within 2^13 of a boundary; distinct by (op kind, result class) sequence",
        n,
        proptest::collection::vec(op(), 1..24),
        prog,
    );
}
