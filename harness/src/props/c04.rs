//! C04 — virtual address <-> page-table indices is an exact bijection.
use crate::engine::{outcome, CaseResult, Obs, Outcome, Run};
use crate::gen::*;
use crate::{ensure, ensure_eq};
use proptest::prelude::*;
use x86_64::structures::paging::page_table::PageTableLevel;
use x86_64::structures::paging::{Page, PageOffset, PageTableIndex, Size1GiB, Size2MiB, Size4KiB};
use x86_64::VirtAddr;

fn fields(x: u64) -> (u16, u16, u16, u16, u16) {
    (
        ((x >> 39) & 511) as u16,
        ((x >> 30) & 511) as u16,
        ((x >> 21) & 511) as u16,
        ((x >> 12) & 511) as u16,
        (x & 4095) as u16,
    )
}

const LEVELS: [(PageTableLevel, u32); 4] = [
    (PageTableLevel::One, 1),
    (PageTableLevel::Two, 2),
    (PageTableLevel::Three, 3),
    (PageTableLevel::Four, 4),
];

fn idx_all_from(i: PageTableIndex, want: u16, what: &str) -> CaseResult {
    ensure_eq!(u16::from(i), want, "{} (u16)", what);
    ensure_eq!(u32::from(i), want as u32, "{} (u32)", what);
    ensure_eq!(u64::from(i), want as u64, "{} (u64)", what);
    ensure_eq!(usize::from(i), want as usize, "{} (usize)", what);
    ensure!(u16::from(i) < 512, "{} index out of 0..512", what);
    Ok(())
}

fn addr_case(x: &u64, obs: &mut Obs) -> CaseResult {
    let x = *x;
    let a = VirtAddr::new(x);
    let (p4, p3, p2, p1, off) = fields(x);
    idx_all_from(a.p4_index(), p4, &format!("p4_index({:#x})", x))?;
    idx_all_from(a.p3_index(), p3, &format!("p3_index({:#x})", x))?;
    idx_all_from(a.p2_index(), p2, &format!("p2_index({:#x})", x))?;
    idx_all_from(a.p1_index(), p1, &format!("p1_index({:#x})", x))?;
    let po = a.page_offset();
    ensure_eq!(u16::from(po), off, "page_offset({:#x}) u16", x);
    ensure_eq!(u32::from(po), off as u32, "page_offset u32");
    ensure_eq!(u64::from(po), off as u64, "page_offset u64");
    ensure_eq!(usize::from(po), off as usize, "page_offset usize");
    let want = [p1, p2, p3, p4];
    for (lvl, n) in LEVELS {
        ensure_eq!(u16::from(a.page_table_index(lvl)), want[(n - 1) as usize], "VirtAddr::page_table_index({:?}) of {:#x}", lvl, x);
    }
    // pages of all sizes containing the address
    let g4 = Page::<Size4KiB>::containing_address(a);
    let g2 = Page::<Size2MiB>::containing_address(a);
    let g1 = Page::<Size1GiB>::containing_address(a);
    ensure_eq!(u16::from(g4.p4_index()), p4, "Page4K::p4_index");
    ensure_eq!(u16::from(g4.p3_index()), p3, "Page4K::p3_index");
    ensure_eq!(u16::from(g4.p2_index()), p2, "Page4K::p2_index");
    ensure_eq!(u16::from(g4.p1_index()), p1, "Page4K::p1_index");
    ensure_eq!(u16::from(g2.p4_index()), p4, "Page2M::p4_index");
    ensure_eq!(u16::from(g2.p3_index()), p3, "Page2M::p3_index");
    ensure_eq!(u16::from(g2.p2_index()), p2, "Page2M::p2_index");
    ensure_eq!(u16::from(g1.p4_index()), p4, "Page1G::p4_index");
    ensure_eq!(u16::from(g1.p3_index()), p3, "Page1G::p3_index");
    for (lvl, n) in LEVELS {
        let w4 = want[(n - 1) as usize];
        ensure_eq!(u16::from(g4.page_table_index(lvl)), w4, "Page4K::page_table_index({:?})", lvl);
        let w2 = if n >= 2 { want[(n - 1) as usize] } else { 0 };
        ensure_eq!(u16::from(g2.page_table_index(lvl)), w2, "Page2M::page_table_index({:?})", lvl);
        let w1 = if n >= 3 { want[(n - 1) as usize] } else { 0 };
        ensure_eq!(u16::from(g1.page_table_index(lvl)), w1, "Page1G::page_table_index({:?})", lvl);
    }
    // inverse: indices -> page -> the containing page's start
    let pi = |v: u16| PageTableIndex::new(v);
    let b4 = Page::from_page_table_indices(pi(p4), pi(p3), pi(p2), pi(p1));
    ensure_eq!(b4.start_address().as_u64(), x & !0xfff, "from_page_table_indices inverse of {:#x}", x);
    let b2 = Page::from_page_table_indices_2mib(pi(p4), pi(p3), pi(p2));
    ensure_eq!(b2.start_address().as_u64(), x & !0x1f_ffff, "from_page_table_indices_2mib inverse of {:#x}", x);
    let b1 = Page::from_page_table_indices_1gib(pi(p4), pi(p3));
    ensure_eq!(b1.start_address().as_u64(), x & !0x3fff_ffff, "from_page_table_indices_1gib inverse of {:#x}", x);
    ensure!(b4 == g4 && b2 == g2 && b1 == g1, "from-indices page differs from containing page at {:#x}", x);

    if p4 >= 256 {
        obs.label("upper-half");
    }
    let edge = |v: u16| v == 0 || v == 511;
    let idx = [p4, p3, p2, p1];
    let nt = p4 >= 256 || (0..3).any(|i| edge(idx[i]) != edge(idx[i + 1]) || (edge(idx[i]) && idx[i] != idx[i + 1]));
    if nt {
        obs.nontrivial(&(p4, p3, p2, p1, off));
    }
    Ok(())
}

fn idx_case(c: &(u16, u16, u16, u16), obs: &mut Obs) -> CaseResult {
    let (p4, p3, p2, p1) = *c;
    let pi = |v: u16| PageTableIndex::new(v);
    let want4 = sign_extend48(((p4 as u64) << 39) | ((p3 as u64) << 30) | ((p2 as u64) << 21) | ((p1 as u64) << 12));
    let want2 = sign_extend48(((p4 as u64) << 39) | ((p3 as u64) << 30) | ((p2 as u64) << 21));
    let want1 = sign_extend48(((p4 as u64) << 39) | ((p3 as u64) << 30));
    let g4 = Page::from_page_table_indices(pi(p4), pi(p3), pi(p2), pi(p1));
    let g2 = Page::from_page_table_indices_2mib(pi(p4), pi(p3), pi(p2));
    let g1 = Page::from_page_table_indices_1gib(pi(p4), pi(p3));
    ensure_eq!(g4.start_address().as_u64(), want4, "from_page_table_indices{:?}", c);
    ensure_eq!(g2.start_address().as_u64(), want2, "from_page_table_indices_2mib{:?}", c);
    ensure_eq!(g1.start_address().as_u64(), want1, "from_page_table_indices_1gib{:?}", c);
    ensure!(is_canonical(want4), "oracle");
    ensure_eq!(g4.start_address().as_u64() % 4096, 0, "4K alignment");
    ensure_eq!(g2.start_address().as_u64() % (1 << 21), 0, "2M alignment");
    ensure_eq!(g1.start_address().as_u64() % (1 << 30), 0, "1G alignment");
    ensure_eq!(g4.size(), 4096u64, "Page4K::size");
    ensure_eq!(g2.size(), 1u64 << 21, "Page2M::size");
    ensure_eq!(g1.size(), 1u64 << 30, "Page1G::size");
    // read back
    ensure_eq!((u16::from(g4.p4_index()), u16::from(g4.p3_index()), u16::from(g4.p2_index()), u16::from(g4.p1_index())), (p4, p3, p2, p1), "indices of 4K page read back");
    ensure_eq!((u16::from(g2.p4_index()), u16::from(g2.p3_index()), u16::from(g2.p2_index())), (p4, p3, p2), "indices of 2M page read back");
    ensure_eq!((u16::from(g1.p4_index()), u16::from(g1.p3_index())), (p4, p3), "indices of 1G page read back");
    let a = g4.start_address();
    ensure_eq!(u16::from(a.page_offset()), 0u16, "page start has offset 0");
    if p4 >= 256 || [p4, p3, p2, p1].iter().any(|v| *v == 0 || *v == 511) {
        obs.nontrivial(c);
    }
    Ok(())
}

fn u16_case(v: &u16, obs: &mut Obs) -> CaseResult {
    let v = *v;
    // PageTableIndex
    let n = outcome(|| PageTableIndex::new(v));
    match (&n, v < 512) {
        (Outcome::Ret(i), true) => ensure_eq!(u16::from(*i), v, "PageTableIndex::new({})", v),
        (Outcome::Panic(_), false) => {}
        _ => return Err(format!("PageTableIndex::new({}) accept/reject wrong: {:?}", v, n)),
    }
    let t = PageTableIndex::new_truncate(v);
    ensure_eq!(u16::from(t), v % 512, "PageTableIndex::new_truncate({})", v);
    idx_all_from(t, v % 512, "new_truncate conversions")?;
    ensure_eq!(u16::from(PageTableIndex::new_truncate(u16::from(t))), u16::from(t), "idempotent");
    // PageOffset
    let n = outcome(|| PageOffset::new(v));
    match (&n, v < 4096) {
        (Outcome::Ret(i), true) => ensure_eq!(u16::from(*i), v, "PageOffset::new({})", v),
        (Outcome::Panic(_), false) => {}
        _ => return Err(format!("PageOffset::new({}) accept/reject wrong: {:?}", v, n)),
    }
    let t = PageOffset::new_truncate(v);
    ensure_eq!(u16::from(t), v % 4096, "PageOffset::new_truncate({})", v);
    ensure_eq!(u32::from(t), (v % 4096) as u32, "PageOffset u32");
    ensure_eq!(u64::from(t), (v % 4096) as u64, "PageOffset u64");
    ensure_eq!(usize::from(t), (v % 4096) as usize, "PageOffset usize");
    // near an accept/reject boundary, or wrapping
    if (510..=513).contains(&v) || (4094..=4097).contains(&v) || v >= 512 {
        obs.nontrivial(&v);
    }
    Ok(())
}

fn levels_case(_: &u8, obs: &mut Obs) -> CaseResult {
    use PageTableLevel::*;
    ensure_eq!(Four.next_lower_level(), Some(Three), "4->3");
    ensure_eq!(Three.next_lower_level(), Some(Two), "3->2");
    ensure_eq!(Two.next_lower_level(), Some(One), "2->1");
    ensure_eq!(One.next_lower_level(), None, "1->none");
    ensure_eq!(One.next_higher_level(), Some(Two), "1->2");
    ensure_eq!(Two.next_higher_level(), Some(Three), "2->3");
    ensure_eq!(Three.next_higher_level(), Some(Four), "3->4");
    ensure_eq!(Four.next_higher_level(), None, "4->none");
    for (lvl, n) in LEVELS {
        ensure_eq!(lvl as u8 as u32, n, "level number");
        ensure_eq!(lvl.table_address_space_alignment(), 1u64 << (12 + 9 * n), "table_address_space_alignment({:?})", lvl);
        ensure_eq!(lvl.entry_address_space_alignment(), 1u64 << (12 + 9 * (n - 1)), "entry_address_space_alignment({:?})", lvl);
        obs.nontrivial(&n);
    }
    Ok(())
}

pub fn run(run: &mut Run) {
    let n = run.cases(1_000_000, 40_000_000);
    run.sub(
        "addr",
        "canonical addresses (index tuples from {0,1,255,256,510,511,uniform}^4 x offset, sign-extended; uniform; half-end neighbours); oracle: independent shift/mask extraction of bits 39-47/30-38/21-29/12-20/0-11 vs p*_index/page_offset/page_table_index(level) on VirtAddr and on Page<4K/2M/1G>, all From conversions, and from_page_table_indices* as inverse; non-trivial = p4>=256 (sign extension) or an index in {0,511} next to a differing neighbour; distinct by (indices, offset)",
        n,
        canon_va(),
        addr_case,
    );
    let n = run.cases(500_000, 20_000_000);
    run.sub(
        "from_indices",
        "(p4,p3,p2,p1) from the edge-biased index generator; oracle: sign-extended packing, alignment to the page size, indices read back; non-trivial = p4>=256 or any index in {0,511}; distinct by tuple",
        n,
        (idx9(), idx9(), idx9(), idx9()),
        idx_case,
    );
    run.exhaustive(
        "u16_exhaustive",
        "all 65536 u16 through PageTableIndex::{new,new_truncate} and PageOffset::{new,new_truncate} (accept iff <512 / <4096, truncate = mod); non-trivial = value >= 512 or adjacent to an accept/reject boundary",
        0u16..=u16::MAX,
        u16_case,
    );
    run.exhaustive(
        "levels",
        "the four PageTableLevel values: next_lower/next_higher chain 4-3-2-1 and alignments 2^(12+9L), 2^(12+9(L-1))",
        0u8..1,
        levels_case,
    );
}
