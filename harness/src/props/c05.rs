//! C05 — stepping treats the canonical address space as one contiguous sequence.
use crate::engine::{outcome, CaseResult, Obs, Run};
use crate::gen::*;
use crate::{ensure, ensure_eq};
use proptest::prelude::*;
use std::iter::Step;
use x86_64::structures::paging::{Page, PageSize, PageTableIndex, Size1GiB, Size2MiB, Size4KiB};
use x86_64::VirtAddr;

const SPACE: u128 = 1 << 48;

fn pos(a: u64) -> u128 {
    (a & 0xffff_ffff_ffff) as u128
}
fn addr(p: u128) -> u64 {
    sign_extend48(p as u64)
}

fn m_fwd(a: u64, n: u128) -> Option<u64> {
    let p = pos(a) + n;
    if p < SPACE {
        Some(addr(p))
    } else {
        None
    }
}
fn m_bwd(a: u64, n: u128) -> Option<u64> {
    let p = pos(a);
    if n <= p {
        Some(addr(p - n))
    } else {
        None
    }
}
fn m_between(a: u64, b: u64) -> (usize, Option<usize>) {
    if pos(b) >= pos(a) {
        let d = (pos(b) - pos(a)) as usize;
        (d, Some(d))
    } else {
        (0, None)
    }
}

fn interesting(a: u64, n: u128, fwd: bool) -> bool {
    // the step crosses or lands next to a gap end / an end of the space, or n >= 2^48
    if n >= SPACE {
        return true;
    }
    let p = pos(a);
    let q = if fwd { p + n } else { p.wrapping_sub(n) };
    let near = |x: u128| {
        [0u128, 1 << 47, SPACE]
            .iter()
            .any(|b| x.wrapping_sub(*b) < 8192 || b.wrapping_sub(x) < 8192)
    };
    let crosses = if fwd { p < (1 << 47) && q >= (1 << 47) } else { p >= (1 << 47) && (n > p || q < (1 << 47)) };
    crosses || near(q) || (fwd && q >= SPACE) || (!fwd && n > p)
}

pub fn vstep(c: &(u64, u64, u64), obs: &mut Obs) -> CaseResult {
    let (a, n, b) = *c;
    let va = VirtAddr::new(a);
    let vb = VirtAddr::new(b);
    let f = <VirtAddr as Step>::forward_checked(va, n as usize).map(|v| v.as_u64());
    let want_f = m_fwd(a, n as u128);
    ensure_eq!(f, want_f, "VirtAddr forward_checked({:#x}, {:#x})", a, n);
    let bw = <VirtAddr as Step>::backward_checked(va, n as usize).map(|v| v.as_u64());
    let want_b = m_bwd(a, n as u128);
    ensure_eq!(bw, want_b, "VirtAddr backward_checked({:#x}, {:#x})", a, n);
    let sb = <VirtAddr as Step>::steps_between(&va, &vb);
    ensure_eq!(sb, m_between(a, b), "VirtAddr steps_between({:#x}, {:#x})", a, b);
    // mutual inverses
    if let Some(x) = f {
        let vx = VirtAddr::new(x);
        ensure_eq!(<VirtAddr as Step>::backward_checked(vx, n as usize).map(|v| v.as_u64()), Some(a), "backward(forward(a,n),n) == a for a={:#x} n={:#x}", a, n);
        ensure_eq!(<VirtAddr as Step>::steps_between(&va, &vx), (n as usize, Some(n as usize)), "steps_between(a, forward(a,n)) == n for a={:#x} n={:#x}", a, n);
    }
    if let Some(x) = bw {
        let vx = VirtAddr::new(x);
        ensure_eq!(<VirtAddr as Step>::forward_checked(vx, n as usize).map(|v| v.as_u64()), Some(a), "forward(backward(a,n),n) == a for a={:#x} n={:#x}", a, n);
        ensure_eq!(<VirtAddr as Step>::steps_between(&vx, &va), (n as usize, Some(n as usize)), "steps_between(backward(a,n), a) == n");
    }
    if let (d, Some(_)) = sb {
        ensure_eq!(<VirtAddr as Step>::forward_checked(va, d).map(|v| v.as_u64()), Some(b), "forward(a, steps_between(a,b)) == b for a={:#x} b={:#x}", a, b);
        ensure_eq!(<VirtAddr as Step>::backward_checked(vb, d).map(|v| v.as_u64()), Some(a), "backward(b, steps_between(a,b)) == a");
    }
    // non-checked forms agree (panic exactly when the position does not exist)
    let fo = outcome(|| <VirtAddr as Step>::forward(va, n as usize).as_u64()).ret();
    ensure_eq!(fo, want_f, "Step::forward({:#x},{:#x}) vs model", a, n);
    let bo = outcome(|| <VirtAddr as Step>::backward(va, n as usize).as_u64()).ret();
    ensure_eq!(bo, want_b, "Step::backward({:#x},{:#x}) vs model", a, n);

    let i1 = interesting(a, n as u128, true);
    let i2 = interesting(a, n as u128, false);
    let i3 = (pos(a) < (1 << 47)) != (pos(b) < (1 << 47));
    if i1 {
        obs.label("fwd-edge");
    }
    if i2 {
        obs.label("bwd-edge");
    }
    if i3 {
        obs.label("between-across-gap");
    }
    if i1 || i2 || i3 {
        obs.nontrivial(c);
    }
    Ok(())
}

fn pstep_s<S: PageSize>(a: u64, n: u64, b: u64, obs: &mut Obs) -> CaseResult {
    let sz = S::SIZE;
    let pa = Page::<S>::containing_address(VirtAddr::new(a));
    let pb = Page::<S>::containing_address(VirtAddr::new(b));
    let a = a & !(sz - 1);
    let b = b & !(sz - 1);
    ensure_eq!(pa.start_address().as_u64(), a, "containing_address");
    let bytes = n as u128 * sz as u128;
    let overflow = bytes > u64::MAX as u128;
    let want_f = if overflow { None } else { m_fwd(a, bytes) };
    let want_b = if overflow { None } else { m_bwd(a, bytes) };
    let f = <Page<S> as Step>::forward_checked(pa, n as usize).map(|p| p.start_address().as_u64());
    ensure_eq!(f, want_f, "Page<{}> forward_checked({:#x}, {:#x})", S::DEBUG_STR, a, n);
    let bw = <Page<S> as Step>::backward_checked(pa, n as usize).map(|p| p.start_address().as_u64());
    ensure_eq!(bw, want_b, "Page<{}> backward_checked({:#x}, {:#x})", S::DEBUG_STR, a, n);
    let sb = <Page<S> as Step>::steps_between(&pa, &pb);
    let want_sb = match m_between(a, b) {
        (d, Some(_)) => ((d as u64 / sz) as usize, Some((d as u64 / sz) as usize)),
        x => x,
    };
    ensure_eq!(sb, want_sb, "Page<{}> steps_between({:#x}, {:#x})", S::DEBUG_STR, a, b);
    if let Some(x) = f {
        let px = Page::<S>::from_start_address(VirtAddr::new(x)).map_err(|_| format!("forward result {:#x} is not page aligned", x))?;
        ensure_eq!(<Page<S> as Step>::backward_checked(px, n as usize), Some(pa), "page backward(forward)");
        ensure_eq!(<Page<S> as Step>::steps_between(&pa, &px), (n as usize, Some(n as usize)), "page steps_between(a, forward(a,n)) a={:#x} n={:#x}", a, n);
    }
    if let Some(x) = bw {
        let px = Page::<S>::from_start_address(VirtAddr::new(x)).map_err(|_| format!("backward result {:#x} is not page aligned", x))?;
        ensure_eq!(<Page<S> as Step>::forward_checked(px, n as usize), Some(pa), "page forward(backward)");
    }
    if let (d, Some(_)) = sb {
        ensure_eq!(<Page<S> as Step>::forward_checked(pa, d), Some(pb), "page forward(a, steps_between(a,b)) == b");
        ensure_eq!(<Page<S> as Step>::backward_checked(pb, d), Some(pa), "page backward(b, steps_between(a,b)) == a");
    }
    let fo = outcome(|| <Page<S> as Step>::forward(pa, n as usize).start_address().as_u64()).ret();
    ensure_eq!(fo, want_f, "Page Step::forward vs model");
    let bo = outcome(|| <Page<S> as Step>::backward(pa, n as usize).start_address().as_u64()).ret();
    ensure_eq!(bo, want_b, "Page Step::backward vs model");
    let nt = overflow || interesting(a, bytes.min(u64::MAX as u128), true) || interesting(a, bytes.min(u64::MAX as u128), false);
    if overflow {
        obs.label("count*size-overflow");
    }
    if nt {
        obs.nontrivial(&(sz, a, n, b));
    }
    Ok(())
}

pub fn pstep(c: &(u8, u64, u64, u64), obs: &mut Obs) -> CaseResult {
    let (s, a, n, b) = *c;
    match s % 3 {
        0 => pstep_s::<Size4KiB>(a, n, b, obs),
        1 => pstep_s::<Size2MiB>(a, n, b, obs),
        _ => pstep_s::<Size1GiB>(a, n, b, obs),
    }
}

pub fn istep(c: &(u16, u64, u16), obs: &mut Obs) -> CaseResult {
    let (i, n, j) = *c;
    let (i, j) = (i % 512, j % 512);
    let pi = PageTableIndex::new(i);
    let pj = PageTableIndex::new(j);
    let want_f = if (i as u128 + n as u128) < 512 { Some(i + n as u16) } else { None };
    let want_b = if n as u128 <= i as u128 { Some(i - n as u16) } else { None };
    let f = outcome(|| <PageTableIndex as Step>::forward_checked(pi, n as usize).map(u16::from));
    ensure_eq!(f.clone().ret(), Some(want_f), "PageTableIndex forward_checked({}, {:#x}) -> {:?}", i, n, f);
    let b = outcome(|| <PageTableIndex as Step>::backward_checked(pi, n as usize).map(u16::from));
    ensure_eq!(b.clone().ret(), Some(want_b), "PageTableIndex backward_checked({}, {:#x}) -> {:?}", i, n, b);
    let sb = <PageTableIndex as Step>::steps_between(&pi, &pj);
    let want_sb = if j >= i { ((j - i) as usize, Some((j - i) as usize)) } else { (0, None) };
    ensure_eq!(sb, want_sb, "PageTableIndex steps_between({}, {})", i, j);
    if let Some(x) = want_f {
        ensure!(x < 512, "oracle");
        ensure_eq!(<PageTableIndex as Step>::backward_checked(PageTableIndex::new(x), n as usize).map(u16::from), Some(i), "index backward(forward)");
    }
    if let (d, Some(_)) = sb {
        ensure_eq!(<PageTableIndex as Step>::forward_checked(pi, d).map(u16::from), Some(j), "index forward(steps_between)");
    }
    if (i as u128 + n as u128) >= 510 || n as u128 + 2 > i as u128 {
        obs.nontrivial(c);
    }
    Ok(())
}

/// Every collected iteration is cut off well above the longest model list (48 addresses/pages, 512
/// indices), so a Step impl that stops advancing yields a wrong list instead of an endless one.
const CAP: usize = 600;

/// Range iteration (the Step impl is what makes `a..b` iterable): short ranges straddling the gap
/// or touching the ends of the space.
fn range_iter(c: &(u8, u64, u16, u16), obs: &mut Obs) -> CaseResult {
    let (kind, anchor, before, len) = *c;
    let (before, len) = ((before % 48) as u128, (len % 48) as u128);
    let unit: u128 = match kind % 4 {
        0 => 1,
        1 => 4096,
        2 => 1 << 21,
        _ => 1 << 30,
    };
    // start `before` units before the anchor (clamped into the space), `len` items
    let anchor_pos = pos(anchor) / unit * unit;
    let start_pos = anchor_pos.saturating_sub(before * unit);
    let max_items = (SPACE - start_pos) / unit;
    let len = len.min(max_items);
    let model: Vec<u64> = (0..len).map(|i| addr(start_pos + i * unit)).collect();
    let end_exists = start_pos + len * unit < SPACE;
    fn collect_va(a: u64, b: u64) -> (Vec<u64>, Vec<u64>, (usize, Option<usize>)) {
        let r = VirtAddr::new(a)..VirtAddr::new(b);
        (r.clone().take(CAP).map(|v| v.as_u64()).collect(), r.clone().rev().take(CAP).map(|v| v.as_u64()).collect(), r.size_hint())
    }
    fn collect_pg<S: PageSize>(a: u64, b: u64) -> (Vec<u64>, Vec<u64>, (usize, Option<usize>)) {
        let r = Page::<S>::containing_address(VirtAddr::new(a))..Page::<S>::containing_address(VirtAddr::new(b));
        (
            r.clone().take(CAP).map(|v| v.start_address().as_u64()).collect(),
            r.clone().rev().take(CAP).map(|v| v.start_address().as_u64()).collect(),
            r.size_hint(),
        )
    }
    fn collect_va_incl(a: u64, b: u64) -> Vec<u64> {
        (VirtAddr::new(a)..=VirtAddr::new(b)).take(CAP).map(|v| v.as_u64()).collect()
    }
    fn collect_pg_incl<S: PageSize>(a: u64, b: u64) -> Vec<u64> {
        (Page::<S>::containing_address(VirtAddr::new(a))..=Page::<S>::containing_address(VirtAddr::new(b)))
            .take(CAP)
            .map(|v| v.start_address().as_u64())
            .collect()
    }
    let a = addr(start_pos);
    if end_exists {
        let b = addr(start_pos + len * unit);
        let got = outcome(|| match kind % 4 {
            0 => collect_va(a, b),
            1 => collect_pg::<Size4KiB>(a, b),
            2 => collect_pg::<Size2MiB>(a, b),
            _ => collect_pg::<Size1GiB>(a, b),
        });
        let (fw, rv, hint) = match got.ret() {
            Some(x) => x,
            None => return Err(format!("iterating the exclusive range {:#x}..{:#x} (unit {:#x}) panicked", a, b, unit)),
        };
        ensure_eq!(fw, model, "exclusive range {:#x}..{:#x} unit {:#x} yields", a, b, unit);
        let mut rm = model.clone();
        rm.reverse();
        ensure_eq!(rv, rm, "reversed exclusive range {:#x}..{:#x}", a, b);
        ensure_eq!(hint, (model.len(), Some(model.len())), "size_hint of {:#x}..{:#x}", a, b);
    }
    if len > 0 {
        let last = addr(start_pos + (len - 1) * unit);
        let got = outcome(|| match kind % 4 {
            0 => collect_va_incl(a, last),
            1 => collect_pg_incl::<Size4KiB>(a, last),
            2 => collect_pg_incl::<Size2MiB>(a, last),
            _ => collect_pg_incl::<Size1GiB>(a, last),
        });
        match got.ret() {
            Some(v) => ensure_eq!(v, model, "inclusive range {:#x}..={:#x} unit {:#x} yields", a, last, unit),
            None => return Err(format!("iterating the inclusive range {:#x}..={:#x} (unit {:#x}) panicked", a, last, unit)),
        }
    }
    let straddles = start_pos < (1 << 47) && start_pos + len * unit > (1 << 47);
    let touches_end = !end_exists || start_pos == 0;
    if straddles {
        obs.label("straddles-gap");
    }
    if touches_end {
        obs.label("touches-end-of-space");
    }
    if (straddles || touches_end) && len > 0 {
        obs.nontrivial(&(kind % 4, start_pos, len));
    }
    obs.add_evals(2 * len as u64);
    Ok(())
}

fn idx_range(c: &(u16, u16), obs: &mut Obs) -> CaseResult {
    let (i, j) = (c.0 % 512, c.1 % 512);
    let r = PageTableIndex::new(i)..PageTableIndex::new(j);
    let got: Vec<u16> = r.take(CAP).map(u16::from).collect();
    let want: Vec<u16> = (i..j).collect();
    ensure_eq!(got, want, "PageTableIndex range {}..{}", i, j);
    let got: Vec<u16> = (PageTableIndex::new(i)..=PageTableIndex::new(j)).take(CAP).map(u16::from).collect();
    let want: Vec<u16> = (i..=j).collect();
    ensure_eq!(got, want, "PageTableIndex range {}..={}", i, j);
    if j == 511 || i == 0 {
        obs.nontrivial(&(i, j));
    }
    Ok(())
}

pub fn run(run: &mut Run) {
    let n = run.cases(1_000_000, 40_000_000);
    run.sub(
        "vaddr",
        "(start, count, end): canonical start/end from the edge-biased generator (both halves, gap and space-end neighbours), counts small / page multiples / edge-biased u64 / >=2^48 / near u64::MAX/SIZE; oracle: u128 position model pos=a&(2^48-1): forward/backward exist iff position in 0..2^48, steps_between exact iff end>=start, three mutual-inverse laws, unchecked forms panic iff checked is None; non-trivial = step crosses or lands within 8192 of a gap end / end of space, or count>=2^48, or start/end in different halves; distinct by (start,count,end)",
        n,
        (canon_va(), count(), canon_va()),
        vstep,
    );
    let n = run.cases(1_000_000, 40_000_000);
    run.sub(
        "page",
        "(size, start, count, end) for 4KiB/2MiB/1GiB pages: same position model in whole pages, count*SIZE overflow => None; non-trivial as for addresses or count*SIZE overflows u64",
        n,
        (size_sel(), canon_va(), count(), canon_va()),
        pstep,
    );
    let n = run.cases(200_000, 8_000_000);
    run.sub(
        "index",
        "(index, count, index2) over all 512 indices x edge-biased counts: forward exists iff i+n<512, backward iff n<=i, steps_between exact; non-trivial = result within 2 of either end or not existing",
        n,
        (0u16..512, prop_oneof![0u64..600, count()], 0u16..512),
        istep,
    );
    let n = run.cases(100_000, 4_000_000);
    run.sub(
        "range_iter",
        "short (<48 items) a..b and a..=b ranges of VirtAddr / Page<4K,2M,1G> placed around a generated anchor (gap ends and ends of the space frequent), forward, reversed and size_hint; oracle: the model's list of positions; non-trivial = range straddles the gap or touches an end of the space; distinct by (unit,start,len)",
        n,
        (0u8..4, prop_oneof![Just(GAP_HI), Just(0u64), Just(u64::MAX), canon_va()], 0u16..48, 0u16..48),
        range_iter,
    );
    let n = run.cases(20_000, 800_000);
    run.sub(
        "index_range",
        "PageTableIndex ranges i..j and i..=j vs integer ranges; non-trivial = touches 0 or 511",
        n,
        (prop_oneof![Just(0u16), 0u16..512], prop_oneof![Just(511u16), 0u16..512]),
        idx_range,
    );
}
