//! C06 — alignment and containment are exact.
use crate::engine::{outcome, CaseResult, Obs, Outcome, Run};
use crate::gen::*;
use crate::{ensure, ensure_eq};
use proptest::prelude::*;
use x86_64::structures::paging::{Page, PageSize, PhysFrame, Size1GiB, Size2MiB, Size4KiB};
use x86_64::{PhysAddr, VirtAddr};

fn m_down(a: u64, al: u64) -> u128 {
    (a as u128) - (a as u128 % al as u128)
}
fn m_up(a: u64, al: u64) -> u128 {
    let r = a as u128 % al as u128;
    if r == 0 {
        a as u128
    } else {
        a as u128 - r + al as u128
    }
}

pub fn raw(c: &(u64, u64), obs: &mut Obs) -> CaseResult {
    let (a, al) = *c;
    let d = outcome(|| x86_64::align_down(a, al));
    let u = outcome(|| x86_64::align_up(a, al));
    if !al.is_power_of_two() {
        ensure!(d.is_panic(), "align_down({:#x}, {:#x}) must panic: alignment is not a power of two; got {:?}", a, al, d);
        ensure!(u.is_panic(), "align_up({:#x}, {:#x}) must panic: alignment is not a power of two; got {:?}", a, al, u);
        obs.label("non-pow2");
        obs.nontrivial(&(a % 7, al));
        return Ok(());
    }
    match d {
        Outcome::Ret(x) => ensure_eq!(x as u128, m_down(a, al), "align_down({:#x}, {:#x})", a, al),
        Outcome::Panic(m) => return Err(format!("align_down({:#x}, {:#x}) panicked: {}", a, al, m)),
    }
    let wu = m_up(a, al);
    match u {
        Outcome::Ret(x) => {
            ensure!(wu <= u64::MAX as u128, "align_up({:#x}, {:#x}) returned {:#x} but the rounded value overflows 2^64", a, al, x);
            ensure_eq!(x as u128, wu, "align_up({:#x}, {:#x})", a, al);
        }
        Outcome::Panic(m) => ensure!(wu > u64::MAX as u128, "align_up({:#x}, {:#x}) panicked although the result {:#x} fits: {}", a, al, wu, m),
    }
    if (a % al != 0 && al >= 2) || wu > u64::MAX as u128 {
        obs.nontrivial(c);
    }
    if wu > u64::MAX as u128 {
        obs.label("up-overflow");
    }
    Ok(())
}

pub fn virt(c: &(u64, u8, u64), obs: &mut Obs) -> CaseResult {
    let (a, lg, bad) = *c;
    let va = VirtAddr::new(a);
    // non powers of two must panic for every form
    if !bad.is_power_of_two() {
        ensure!(outcome(|| va.align_up(bad)).is_panic(), "VirtAddr({:#x}).align_up({:#x}) must panic", a, bad);
        ensure!(outcome(|| va.align_down(bad)).is_panic(), "VirtAddr({:#x}).align_down({:#x}) must panic", a, bad);
        ensure!(outcome(|| va.is_aligned(bad)).is_panic(), "VirtAddr({:#x}).is_aligned({:#x}) must panic", a, bad);
    }
    let al = 1u64 << (lg % 48); // alignments up to 2^47 (as the property states)
    // greatest canonical multiple <= a
    let d = outcome(|| va.align_down(al).as_u64());
    let wd = m_down(a, al) as u64;
    ensure!(is_canonical(wd), "oracle: align_down of a canonical address by <=2^47 is canonical");
    ensure_eq!(d.clone().ret(), Some(wd), "VirtAddr({:#x}).align_down({:#x}) -> {:?}", a, al, d);
    // least canonical multiple >= a; overflow beyond 2^64 panics
    let wu = m_up(a, al);
    let u = outcome(|| va.align_up(al).as_u64());
    if wu > u64::MAX as u128 {
        ensure!(u.is_panic(), "VirtAddr({:#x}).align_up({:#x}) must panic (overflow), got {:?}", a, al, u);
        obs.label("virt-up-overflow");
    } else {
        let wu = wu as u64;
        let want = if is_canonical(wu) { wu } else { GAP_HI };
        if !is_canonical(wu) {
            obs.label("virt-up-into-gap");
            ensure!(GAP_HI % al == 0, "oracle");
        }
        ensure_eq!(u.clone().ret(), Some(want), "VirtAddr({:#x}).align_up({:#x}) -> {:?}", a, al, u);
    }
    ensure_eq!(va.is_aligned(al), a % al == 0, "VirtAddr({:#x}).is_aligned({:#x})", a, al);
    // u32/u16/u8 alignment arguments (Into<u64>)
    if al <= u32::MAX as u64 {
        ensure_eq!(va.align_down(al as u32).as_u64(), wd, "align_down with u32 argument");
    }
    if (a % al != 0 && al >= 2) || wu > u64::MAX as u128 || !is_canonical(wu.min(u64::MAX as u128) as u64) {
        obs.nontrivial(&(a, al));
    }
    Ok(())
}

pub fn physc(c: &(u64, u8, u64), obs: &mut Obs) -> CaseResult {
    let (a, lg, bad) = *c;
    let pa = PhysAddr::new(a);
    if !bad.is_power_of_two() {
        ensure!(outcome(|| pa.align_up(bad)).is_panic(), "PhysAddr({:#x}).align_up({:#x}) must panic", a, bad);
        ensure!(outcome(|| pa.align_down(bad)).is_panic(), "PhysAddr({:#x}).align_down({:#x}) must panic", a, bad);
        ensure!(outcome(|| pa.is_aligned(bad)).is_panic(), "PhysAddr({:#x}).is_aligned({:#x}) must panic", a, bad);
    }
    let al = 1u64 << (lg % 64);
    let d = outcome(|| pa.align_down(al).as_u64());
    ensure_eq!(d.clone().ret(), Some(m_down(a, al) as u64), "PhysAddr({:#x}).align_down({:#x}) -> {:?}", a, al, d);
    let wu = m_up(a, al);
    let u = outcome(|| pa.align_up(al).as_u64());
    if wu >= (1u128 << 52) {
        ensure!(u.is_panic(), "PhysAddr({:#x}).align_up({:#x}) must panic (rounded value {:#x} >= 2^52), got {:?}", a, al, wu, u);
        obs.label("phys-up-overflow");
    } else {
        ensure_eq!(u.clone().ret(), Some(wu as u64), "PhysAddr({:#x}).align_up({:#x}) -> {:?}", a, al, u);
    }
    ensure_eq!(pa.is_aligned(al), a % al == 0, "PhysAddr({:#x}).is_aligned({:#x})", a, al);
    if (a % al != 0 && al >= 2) || wu >= (1u128 << 52) {
        obs.nontrivial(&(a, al));
    }
    Ok(())
}

fn contain_s<S: PageSize>(v: u64, p: u64, obs: &mut Obs) -> CaseResult {
    let sz = S::SIZE;
    let va = VirtAddr::new(v);
    let pg = Page::<S>::containing_address(va);
    let s = pg.start_address().as_u64();
    ensure!(s % sz == 0, "Page<{}>::containing_address({:#x}) start {:#x} not aligned", S::DEBUG_STR, v, s);
    ensure!(s <= v && v - s < sz, "Page<{}>::containing_address({:#x}) = {:#x} does not contain the address", S::DEBUG_STR, v, s);
    ensure_eq!(pg.size(), sz, "size()");
    ensure_eq!(Page::<S>::SIZE, sz, "SIZE const");
    let fs = Page::<S>::from_start_address(va);
    match (fs, v % sz == 0) {
        (Ok(p2), true) => ensure_eq!(p2.start_address().as_u64(), v, "from_start_address returns the address back"),
        (Err(_), false) => {}
        (r, al) => return Err(format!("Page<{}>::from_start_address({:#x}): aligned={} but result {:?}", S::DEBUG_STR, v, al, r)),
    }
    let pa = PhysAddr::new(p);
    let fr = PhysFrame::<S>::containing_address(pa);
    let s = fr.start_address().as_u64();
    ensure!(s % sz == 0, "PhysFrame<{}>::containing_address({:#x}) start {:#x} not aligned", S::DEBUG_STR, p, s);
    ensure!(s <= p && p - s < sz, "PhysFrame<{}>::containing_address({:#x}) = {:#x} does not contain the address", S::DEBUG_STR, p, s);
    ensure_eq!(fr.size(), sz, "frame size()");
    let fs = PhysFrame::<S>::from_start_address(pa);
    match (fs, p % sz == 0) {
        (Ok(f2), true) => ensure_eq!(f2.start_address().as_u64(), p, "frame from_start_address returns the address back"),
        (Err(_), false) => {}
        (r, al) => return Err(format!("PhysFrame<{}>::from_start_address({:#x}): aligned={} but result {:?}", S::DEBUG_STR, p, al, r)),
    }
    if v % sz != 0 || p % sz != 0 {
        obs.nontrivial(&(sz, v, p));
    }
    if v % sz == 0 {
        obs.label("virt-aligned");
    }
    if p % sz == 0 {
        obs.label("phys-aligned");
    }
    Ok(())
}

pub fn contain(c: &(u8, u64, u64, bool, bool), obs: &mut Obs) -> CaseResult {
    let (s, v, p, av, ap) = *c;
    let sz = size_of_sel(s);
    // half of the cases use aligned inputs (the accept side of from_start_address)
    let v = if av { v & !(sz - 1) } else { v };
    let p = if ap { p & !(sz - 1) } else { p };
    match s % 3 {
        0 => contain_s::<Size4KiB>(v, p, obs),
        1 => contain_s::<Size2MiB>(v, p, obs),
        _ => contain_s::<Size1GiB>(v, p, obs),
    }
}

pub fn run(run: &mut Run) {
    let n = run.cases(600_000, 24_000_000);
    run.sub(
        "raw",
        "x86_64::align_up/align_down on (edge-biased u64, alignment = any of the 64 powers of two (80%) or a non-power incl. 0 (20%)); oracle: u128 arithmetic (down = a - a mod A, up = least multiple >= a), panic iff non-power-of-two or rounded value >= 2^64; non-trivial = unaligned input with A>=2, overflow, or non-power alignment",
        n,
        (u64_edge(), prop_oneof![8 => pow2(), 2 => non_pow2()]),
        raw,
    );
    let n = run.cases(600_000, 24_000_000);
    run.sub(
        "virt",
        "VirtAddr align_up/align_down/is_aligned on canonical addresses x alignments 2^0..2^47 (+ a non-power alignment for the panic side); oracle: greatest/least canonical multiple (a rounded value falling into the gap becomes 0xffff800000000000), panic iff overflow past 2^64; non-trivial = unaligned or boundary result",
        n,
        (canon_va(), 0u8..48, non_pow2()),
        virt,
    );
    let n = run.cases(600_000, 24_000_000);
    run.sub(
        "phys",
        "PhysAddr align_up/align_down/is_aligned on addresses <2^52 x all 64 alignments; panic iff rounded value >= 2^52 or non-power alignment",
        n,
        (phys(), 0u8..64, non_pow2()),
        physc,
    );
    let n = run.cases(600_000, 24_000_000);
    run.sub(
        "containing",
        "Page/PhysFrame::containing_address and from_start_address for the three sizes on canonical / <2^52 addresses (half of them pre-aligned); oracle: start aligned, start <= a < start+SIZE, from_start_address Ok(a) iff aligned; non-trivial = unaligned input",
        n,
        (size_sel(), canon_va(), phys(), any::<bool>(), any::<bool>()),
        contain,
    );
}
