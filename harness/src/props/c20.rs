//! C20 — RecursivePageTable validates its table and computes exact recursive addresses.
use crate::engine::{outcome, CaseResult, Obs, Outcome, Run};
use crate::gen::*;
use crate::props::mapper::{self, usable_rec, T_C20};
use crate::simmem::{mem, Access, ADDR_MASK};
use crate::umh::{self, cpu, Op};
use crate::{ensure, ensure_eq};
use proptest::prelude::*;
use serde::{Deserialize, Serialize};
use x86_64::structures::paging::mapper::{RecursivePageTable, Translate};
use x86_64::structures::paging::mapper::verif_recursive_hooks as h3;
use x86_64::structures::paging::{Page, PageTable, PageTableIndex, Size1GiB, Size2MiB, Size4KiB};
use x86_64::VirtAddr;

fn mk(a: u64, b: u64, c: u64, d: u64) -> u64 {
    sign_extend48((a << 39) | (b << 30) | (c << 21) | (d << 12))
}

/// Address computation (hook H3) as a pure function: all 512 recursive indices x pages.
fn h3_case(c: &(u16, u64), obs: &mut Obs) -> CaseResult {
    let (r, va) = *c;
    let r = r % 512;
    let ri = PageTableIndex::new(r);
    let a = VirtAddr::new(va);
    let (i4, i3, i2) = (((va >> 39) & 511), ((va >> 30) & 511), ((va >> 21) & 511));
    let r64 = r as u64;
    let want3 = mk(r64, r64, r64, i4);
    let want2 = mk(r64, r64, i4, i3);
    let want1 = mk(r64, i4, i3, i2);
    let p4k = Page::<Size4KiB>::containing_address(a);
    let p2m = Page::<Size2MiB>::containing_address(a);
    let p1g = Page::<Size1GiB>::containing_address(a);
    ensure_eq!(h3::p3_page_of(p4k, ri).start_address().as_u64(), want3, "level-3 table page for 4KiB page {:#x}, recursive index {}", va, r);
    ensure_eq!(h3::p3_page_of(p2m, ri).start_address().as_u64(), want3, "level-3 table page for 2MiB page {:#x}, recursive index {}", va, r);
    ensure_eq!(h3::p3_page_of(p1g, ri).start_address().as_u64(), want3, "level-3 table page for 1GiB page {:#x}, recursive index {}", va, r);
    ensure_eq!(h3::p2_page_of(p4k, ri).start_address().as_u64(), want2, "level-2 table page for 4KiB page {:#x}, recursive index {}", va, r);
    ensure_eq!(h3::p2_page_of(p2m, ri).start_address().as_u64(), want2, "level-2 table page for 2MiB page {:#x}, recursive index {}", va, r);
    ensure_eq!(h3::p1_page_of(p4k, ri).start_address().as_u64(), want1, "level-1 table page for 4KiB page {:#x}, recursive index {}", va, r);
    ensure!(is_canonical(want3) && is_canonical(want2) && is_canonical(want1), "oracle");
    if r >= 256 {
        obs.label("upper-half-recursive-index");
        obs.nontrivial(&(r, i4, i3, i2));
    }
    Ok(())
}

#[derive(Debug, Clone, Serialize, Deserialize)]
pub struct Ctor {
    pub rec: u16,
    /// which of the four indices of the table address are replaced (bit i = level i+1), and by what
    pub perturb: u8,
    pub other_index: u16,
    pub cr3_frame: u64,
    pub cr3_low: u16,
    /// 0 slot -> CR3 frame (P|W), 1 slot -> CR3 frame with junk flags, 2 not present, 3 other frame,
    /// 4 other frame but another slot -> CR3 frame, 5 slot fine but CR3 holds another frame
    pub slot_kind: u8,
    pub junk_flags: u64,
    pub probe: u64,
}

fn ctor() -> impl Strategy<Value = Ctor> {
    (
        any::<u16>(),
        prop_oneof![5 => Just(0u8), 3 => 1u8..16],
        any::<u16>(),
        phys(),
        any::<u16>(),
        0u8..6,
        any::<u64>(),
        canon_va(),
    )
        .prop_map(|(rec, perturb, other_index, cr3_frame, cr3_low, slot_kind, junk_flags, probe)| Ctor { rec, perturb, other_index, cr3_frame, cr3_low, slot_kind, junk_flags, probe })
}

fn ctor_case(c: &Ctor, obs: &mut Obs) -> CaseResult {
    let m = mem();
    m.reset();
    let cp = cpu();
    cp.reset();
    let r = usable_rec(c.rec);
    let r2 = {
        let x = usable_rec(c.other_index);
        if x == r {
            usable_rec(c.other_index.wrapping_add(1))
        } else {
            x
        }
    };
    let f = c.cr3_frame & ADDR_MASK;
    let other = (f ^ 0x0000_0100_0000_3000) & ADDR_MASK;
    // frame whose content the table reference shows, and what CR3 holds
    let (table_frame, cr3_frame) = if c.slot_kind % 6 == 5 { (f, other) } else { (f, f) };
    // table content
    for i in 0..512 {
        m.write(table_frame, i, 0);
    }
    let slot_raw = match c.slot_kind % 6 {
        0 | 5 => f | 3,
        1 => f | 1 | (c.junk_flags & (0xf7e | (0x7ff << 52) | (1 << 63))),
        2 => f | (c.junk_flags & 0xf7e & !1),
        _ => other | 3,
    };
    m.write(table_frame, r as usize, slot_raw);
    if c.slot_kind % 6 == 4 {
        m.write(table_frame, r2 as usize, f | 3);
    }
    cp.set_cr(3, cr3_frame | (c.cr3_low as u64 & 0xfff));
    // the address of the table reference
    let mut ix = [r as u64; 4]; // p4,p3,p2,p1
    for k in 0..4 {
        if c.perturb & (1 << k) != 0 {
            ix[k] = r2 as u64;
        }
    }
    let addr = mk(ix[0], ix[1], ix[2], ix[3]);
    let recursive_form = ix.iter().all(|x| *x == ix[0]);
    // back the reference by a real page showing `table_frame`; the software MMU serves the region of
    // the index the address really repeats
    m.mmu_enable(if recursive_form { ix[0] as u16 } else { r });
    let _ = m.frame_ptr(table_frame);
    let mapped_here = unsafe { map_frame_at(addr, table_frame) };
    ensure!(mapped_here, "harness: cannot map the table reference at {:#x}", addr);
    cp.clear_log();
    m.log.clear();
    let shown = std::cell::RefCell::new(String::new());
    let res = outcome(|| {
        RecursivePageTable::new(unsafe { &mut *(addr as *mut PageTable) }).map(|_| ()).map_err(|e| {
            *shown.borrow_mut() = format!("{}", e).to_lowercase();
            format!("{:?}", e)
        })
    });
    let shown = shown.into_inner();
    let log = cp.take_log();
    let slot_ok = slot_raw & 1 != 0 && slot_raw & ADDR_MASK == cr3_frame;
    // when the four indices are equal the candidate slot is ix[0]
    let cand_ok = if recursive_form {
        let e = m.read(table_frame, ix[0] as usize);
        e & 1 != 0 && e & ADDR_MASK == cr3_frame
    } else {
        false
    };
    let _ = slot_ok;
    let want = if !recursive_form {
        Err("NotRecursive".to_string())
    } else if cand_ok {
        Ok(())
    } else {
        Err("NotActive".to_string())
    };
    let what = format!("RecursivePageTable::new(table at {:#x} = indices {:?}, slot content {:#x}, CR3 {:#x})", addr, ix, slot_raw, cp.cr[3]);
    let got = match res {
        Outcome::Ret(x) => x,
        Outcome::Panic(msg) => {
            unsafe { unmap_at(addr) };
            return Err(format!("{} panicked: {}", what, msg));
        }
    };
    if got != want {
        unsafe { unmap_at(addr) };
        return Err(format!("{}: returned {:?}, expected {:?}", what, got, want));
    }
    // "reports 'not recursive' and 'not active' respectively": the message a caller prints must not name the
    // other condition (wording is free otherwise)
    if (want == Err("NotRecursive".to_string()) && shown.contains("not active")) || (want == Err("NotActive".to_string()) && shown.contains("not recursive")) {
        unsafe { unmap_at(addr) };
        return Err(format!("{}: the error {:?} displays as {:?}, which names the other condition", what, got, shown));
    }
    ensure!(log.iter().all(|t| t.op == Op::MovFromCr && t.a == 3), "{}: executed {:x?}", what, log);
    // "the frame *currently* loaded as address-space root": construct twice inside one function with
    // a root switch in between; the second outcome must follow the new CR3 (a wrapper whose CR3 read
    // may be merged or cached by the optimiser would judge the second table against the old root)
    if recursive_form {
        let e = m.read(table_frame, ix[0] as usize);
        let spare = (f ^ 0x0000_0040_0000_7000) & ADDR_MASK;
        let cr3_b = if cand_ok || e & 1 == 0 { spare } else { e & ADDR_MASK };
        let want_b = if e & 1 != 0 && e & ADDR_MASK == cr3_b { Ok(()) } else { Err("NotActive".to_string()) };
        let cr3_a = cp.cr[3];
        let res2 = outcome(|| new_twice(addr, cr3_b | (c.cr3_low as u64 & 0xfff)));
        cpu().set_cr(3, cr3_a);
        cpu().clear_log();
        match res2 {
            Outcome::Ret((a, b, root_a, root_b)) => {
                if a != want || b != want_b || root_a != cr3_a & ADDR_MASK || root_b != cr3_b {
                    unsafe { unmap_at(addr) };
                    return Err(format!("{}: two constructions around a root switch to CR3 {:#x} returned {:?} then {:?} (Cr3::read saw roots {:#x} then {:#x}), expected {:?} then {:?}", what, cr3_b, a, b, root_a, root_b, want, want_b));
                }
            }
            Outcome::Panic(msg) => {
                unsafe { unmap_at(addr) };
                return Err(format!("{} (twice, around a root switch) panicked: {}", what, msg));
            }
        }
        obs.label("root-switch-between-two-constructions");
    }
    // the recursive index it then uses: observe the fault addresses of a following translate
    if want.is_ok() {
        let probe = {
            let p = c.probe;
            if (p >> 39) & 511 == ix[0] {
                p ^ (1 << 39)
            } else {
                p
            }
        };
        let p4i = (probe >> 39) & 511;
        // give the probe's level-4 slot an (empty) level-3 table so that the mapper has to look at it
        let p3_frame = (f ^ 0x0000_0020_0000_5000) & ADDR_MASK;
        for i in 0..512 {
            m.write(p3_frame, i, 0);
        }
        m.write(table_frame, p4i as usize, p3_frame | 3);
        let r = outcome(|| {
            let mp = RecursivePageTable::new(unsafe { &mut *(addr as *mut PageTable) }).unwrap();
            format!("{:?}", mp.translate(VirtAddr::new(probe)))
        });
        let pages: Vec<u64> = m.log.iter().filter_map(|a| if let Access::Mmu { vpage, .. } = a { Some(*vpage) } else { None }).collect();
        let want_page = mk(ix[0], ix[0], ix[0], p4i);
        unsafe { unmap_at(addr) };
        m.flush_tlb();
        ensure!(matches!(&r, Outcome::Ret(s) if s == "NotMapped"), "translate({:#x}) on an empty level-3 table returned {:?}", probe, r);
        ensure_eq!(pages, vec![want_page], "recursive index used after new(): the level-3 table of {:#x} must be reached through {:#x}", probe, want_page);
        obs.label("constructed-and-probed");
    } else {
        unsafe { unmap_at(addr) };
    }
    m.reset();
    cp.reset();
    obs.label(format!("slot-kind-{}-{}", c.slot_kind % 6, if recursive_form { "recursive-form" } else { "near-recursive" }));
    if !recursive_form || c.slot_kind % 6 >= 1 {
        obs.nontrivial(&(c.slot_kind % 6, c.perturb & 15, recursive_form));
    }
    Ok(())
}

#[inline(never)]
fn new_twice(addr: u64, cr3_b: u64) -> (Result<(), String>, Result<(), String>, u64, u64) {
    // like a kernel that looks at the current root, switches it and builds a mapper for the new one
    let root_a = x86_64::registers::control::Cr3::read().0.start_address().as_u64();
    let a = RecursivePageTable::new(unsafe { &mut *(addr as *mut PageTable) }).map(|_| ()).map_err(|e| format!("{:?}", e));
    cpu().set_cr(3, cr3_b);
    let b = RecursivePageTable::new(unsafe { &mut *(addr as *mut PageTable) }).map(|_| ()).map_err(|e| format!("{:?}", e));
    let root_b = x86_64::registers::control::Cr3::read().0.start_address().as_u64();
    (a, b, root_a, root_b)
}

unsafe fn map_frame_at(addr: u64, frame: u64) -> bool {
    let m = mem();
    let slot = m.slots[&frame];
    let fd = m_fd();
    let p = libc::mmap(addr as *mut libc::c_void, 4096, libc::PROT_READ | libc::PROT_WRITE, libc::MAP_SHARED | libc::MAP_FIXED, fd, (slot * 4096) as i64);
    p as u64 == addr
}
unsafe fn unmap_at(addr: u64) {
    let m = mem();
    let (lo, hi) = m.rec_region();
    if addr >= lo && addr < hi {
        libc::mmap(addr as *mut libc::c_void, 4096, libc::PROT_NONE, libc::MAP_PRIVATE | libc::MAP_ANONYMOUS | libc::MAP_NORESERVE | libc::MAP_FIXED, -1, 0);
    } else {
        libc::munmap(addr as *mut libc::c_void, 4096);
    }
}
fn m_fd() -> i32 {
    crate::simmem::mem().fd()
}

pub fn run(run: &mut Run) {
    umh::install();
    crate::props::c02::common_assumptions(run);
    crate::props::c02::known_findings(run);
    run.assume("constructor cases back the table reference by a real page (mmap of the simulated frame at the recursive / near-recursive address); recursive and replacement indices come from the usable set [1,31] ∪ [65,160]; the address computation is checked for all 512 indices as a pure function through hook H3");
    let n = run.cases(600_000, 24_000_000);
    run.sub(
        "address_computation",
        "hook H3 (p3/p2/p1 table pages): all 512 recursive indices (uniform) x canonical pages of the three sizes (edge-biased indices); oracle: sign-extension of r|r|r|p4, r|r|p4|p3, r|p4|p3|p2 shifted to 39/30/21/12; non-trivial = r >= 256 (sign extension); distinct by (r, p4, p3, p2)",
        n,
        (0u16..512, canon_va()),
        h3_case,
    );
    let n = run.cases(100_000, 4_000_000);
    run.sub(
        "constructor",
        "RecursivePageTable::new on table addresses of the recursive form and near-recursive forms (1-4 of the four indices replaced) x CR3 = any frame + any low 12 bits x slot content in {points to the CR3 frame, same with arbitrary other flags, not present, other frame, other frame while another slot points to the CR3 frame, slot fine but CR3 holds another frame}; oracle: Ok iff the four indices are equal and that slot is present and holds the CR3 frame, NotRecursive / NotActive otherwise, the Display text of the error does not name the other condition, only CR3 is read; a second construction after a root switch (CR3 changed inside the same function) follows the new root; after Ok a translate() reaches the level-3 table through the page r|r|r|p4 (observed fault address of the software MMU); non-trivial = near-recursive address or a slot content other than the plain correct one",
        n,
        ctor(),
        ctor_case,
    );
    let n = run.cases(20_000, 800_000);
    let max_ops = if run.tier == crate::engine::Tier::Quick { 24 } else { 64 };
    run.sub(
        "recursive_accesses",
        "C01 histories on the running recursive mapper: every recursive page touched by a map/unmap/update_flags/set_flags/translate call must be one of r|r|r|r, r|r|r|p4, r|r|p4|p3, r|p4|p3|p2 of the call's page and none below the table the call works on (4 KiB: all four, 2 MiB: down to r|r|p4|p3, 1 GiB and set_flags_p3_entry: down to r|r|r|p4, ...; independent formula), and a clean-up must reach every table that lies wholly inside its range, and that table's ancestors, through the recursive addresses of that table; observed as fault addresses of the software MMU; a quarter of the histories build the mapper with new_unchecked on an alias of the level-4 table (not its recursive address) — the lower tables must still be reached through the recursive index alone, and a fault at an address outside the recursive region is a violation",
        n,
        mapper::map_case([10, 2, 5, 3, 3, 3, 3, 1, 4], max_ops),
        |c, obs| {
            let r = mapper::run_backend(c, mapper::Backend::Recursive, T_C20);
            obs.add_evals(c.ops.len() as u64);
            for l in &r.labels {
                if l.starts_with("recursive-") {
                    obs.label(l.clone());
                }
            }
            if let Some(f) = r.fail {
                if f.tag & T_C20 != 0 {
                    return Err(format!("[C20] {}", f.msg));
                }
                obs.label(format!("history-stopped-by-{}", mapper::tag_name(mapper::lowest(f.tag))));
            }
            if r.steps_done >= 3 {
                obs.nontrivial(&r.shape);
            }
            Ok(())
        },
    );
}
