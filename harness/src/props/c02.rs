//! C02 — mapper errors are precise and a failed call changes no mapping.
use crate::engine::Run;
use crate::props::mapper::*;

pub fn common_assumptions(run: &mut Run) {
    run.assume("mapper code runs unmodified over simulated physical memory (memfd): MappedPageTable through a logging frame->pointer map, OffsetPageTable through a 16 TiB window whose non-table pages fault, RecursivePageTable through a software MMU that resolves faults at recursive addresses by a hardware-style walk from the emulated CR3");
    run.assume("recursive index restricted to slots a Linux process can host ([1,31] and [65,160]); table frames lie in a 16 TiB window above a generated base P0 <= 16 TiB; data frames anywhere below 2^52 and never overlap table frames (FrameAllocator contract)");
    run.assume("sound input domain: leaf flags contain PRESENT; parent flags contain PRESENT, not HUGE_PAGE (and WRITABLE on the recursive mapper, as its documentation requires); pages under the recursive slot are not generated");
}

pub fn known_findings(run: &mut Run) {
    let pat = run.open_finding("C01-huge-leaf-with-PAT-bit-cannot-be-unmapped", || {
        let case = pat_reproducer();
        let r = run_backend(&case, Backend::Mapped, T_C01 | T_C02);
        r.fail.is_some()
    });
    unsafe {
        KNOWN = Known { pat_huge: pat };
    }
}

pub fn pat_reproducer() -> MapCase {
    MapCase {
        p0: 0,
        rec: 0,
        cr3_low: 0,
        anchors: vec![(1, 2, 3, 4)],
        frames: vec![0x4000_0000, 0x8000_0000],
        flag_sets: vec![0, 2],
        pflag_sets: vec![2, 2],
        alloc: (1..20).collect(),
        // flags index 0 -> PAT bit is added for huge pages (ix & 3 == 0)
        ops: vec![MOp::Map { sz: 1, page: 0, frame: 0, flags: 0, pflags: None, fail: 0 }, MOp::Unmap { sz: 1, page: 0 }],
    }
}

pub fn run(run: &mut Run) {
    crate::umh::install();
    common_assumptions(run);
    known_findings(run);
    let n = run.cases(48_000, 1_500_000);
    let max_ops = if run.tier == crate::engine::Tier::Quick { 32 } else { 96 };
    run.sub(
        "error_states",
        "C01 histories with weights shifted to error states: small page pools make calls land on already mapped pages, inside huge leaves, on entries that hold lower-level tables and on absent regions with 0/1/2 existing parent tables; every allocating call carries a failure schedule (none, fail 1st/2nd/3rd request, all); oracle: documented outcome per state (exact variant; 'any Err, never Ok' where the documentation defines nothing), identical results on all three implementations, after every Err the whole table memory equals the pre-state except that existing parent entries on the path may have gained exactly the requested parent flags, allocator request count = missing tables up to the failing one; non-trivial = an error returned in a state reached by >= 2 successful calls, or an allocation failure at the 2nd/3rd allocation point",
        n,
        map_case([12, 2, 6, 5, 5, 3, 1, 1, 1], max_ops),
        |c, obs| run_case(c, T_C02, obs),
    );
    let n = run.cases(6_000, 200_000);
    run.sub(
        "schedule_enumeration",
        "fault enumeration inside the exploration: for a generated history and one chosen allocating call in it, the history is run five times, once under each allocator failure schedule of that call (none, fail the 1st, 2nd, 3rd request, fail all); same oracles as error_states",
        n,
        (map_case([12, 2, 6, 4, 4, 2, 1, 1, 1], 20), proptest::prelude::any::<u16>()),
        |c, obs| run_case_all_schedules(&c.0, c.1, T_C02, obs),
    );
}
