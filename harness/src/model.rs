//! Reference page-table model and independent hardware-style walker (DESIGN 2.6). Written from the
//! architecture manuals and the Mapper/Translate/CleanUp trait documentation.

use std::collections::BTreeMap;

pub const P: u64 = 1;
pub const W: u64 = 2;
pub const U: u64 = 4;
pub const HUGE: u64 = 0x80;
pub const NX: u64 = 1 << 63;
pub const ADDR_MASK: u64 = 0x000f_ffff_ffff_f000;

#[derive(Clone, Debug, PartialEq)]
pub enum Entry {
    /// leaf mapping: raw entry bits (address | flags, incl. HUGE for 2 MiB / 1 GiB leaves)
    Leaf(u64),
    Table { flags: u64, t: Box<Table> },
    /// the recursive slot of the level-4 table (installed by the harness, never touched)
    Reserved(u64),
}

#[derive(Clone, Debug, PartialEq)]
pub struct Table {
    pub frame: u64,
    pub level: u8,
    /// canonical start address of the address range this table covers
    pub base: u64,
    pub e: BTreeMap<u16, Entry>,
}

impl Table {
    pub fn new(frame: u64, level: u8) -> Table {
        Table { frame, level, base: 0, e: BTreeMap::new() }
    }
    pub fn render(&self) -> [u64; 512] {
        let mut out = [0u64; 512];
        for (i, e) in &self.e {
            out[*i as usize] = match e {
                Entry::Leaf(raw) => *raw,
                Entry::Table { flags, t } => t.frame | flags,
                Entry::Reserved(raw) => *raw,
            };
        }
        out
    }
    /// does the subtree contain any leaf?
    pub fn has_leaf(&self) -> bool {
        self.e.values().any(|e| match e {
            Entry::Leaf(_) => true,
            Entry::Table { t, .. } => t.has_leaf(),
            Entry::Reserved(_) => false,
        })
    }
    pub fn for_each_table<'a>(&'a self, f: &mut dyn FnMut(&'a Table)) {
        f(self);
        for e in self.e.values() {
            if let Entry::Table { t, .. } = e {
                t.for_each_table(f);
            }
        }
    }
}

pub fn idx(vaddr: u64, level: u8) -> u16 {
    ((vaddr >> (12 + 9 * (level as u64 - 1))) & 511) as u16
}
pub fn size_of_level(level: u8) -> u64 {
    1u64 << (12 + 9 * (level as u64 - 1))
}

/// State of a page of leaf level `l` (1 = 4 KiB, 2 = 2 MiB, 3 = 1 GiB) in the model.
#[derive(Clone, Copy, Debug, PartialEq)]
pub enum State {
    /// an empty slot at level `at` (>= l) on the walk; `tables_missing` = tables that a map would create
    Absent { at: u8 },
    /// a huge leaf at level `at` > l covers the page
    InsideHuge { at: u8 },
    Mapped { raw: u64 },
    /// the slot at level l holds a table (only l > 1)
    SubTable,
    /// the level-4 slot is the recursive slot
    Reserved,
}

#[derive(Clone, Debug, PartialEq)]
pub struct Model {
    pub root: Table,
}

#[derive(Clone, Copy, Debug, PartialEq)]
pub struct Translation {
    pub phys: u64,
    pub size: u64,
    pub raw_leaf: u64,
    pub writable: bool,
    pub user: bool,
    pub nx: bool,
}

impl Model {
    pub fn new(p4_frame: u64) -> Model {
        Model { root: Table::new(p4_frame, 4) }
    }

    pub fn state(&self, vaddr: u64, l: u8) -> State {
        let mut t = &self.root;
        loop {
            let lvl = t.level;
            match t.e.get(&idx(vaddr, lvl)) {
                None => return State::Absent { at: lvl },
                Some(Entry::Reserved(_)) => return State::Reserved,
                Some(Entry::Leaf(raw)) => {
                    return if lvl == l { State::Mapped { raw: *raw } } else { State::InsideHuge { at: lvl } };
                }
                Some(Entry::Table { t: child, .. }) => {
                    if lvl == l {
                        return State::SubTable;
                    }
                    t = child;
                }
            }
        }
    }

    /// Kind of the entry at level `lvl` on the walk of `vaddr`.
    pub fn entry_at(&self, vaddr: u64, lvl: u8) -> Result<Option<&Entry>, State> {
        let mut t = &self.root;
        loop {
            let cur = t.level;
            let e = t.e.get(&idx(vaddr, cur));
            if cur == lvl {
                return Ok(e);
            }
            match e {
                None => return Err(State::Absent { at: cur }),
                Some(Entry::Reserved(_)) => return Err(State::Reserved),
                Some(Entry::Leaf(_)) => return Err(State::InsideHuge { at: cur }),
                Some(Entry::Table { t: child, .. }) => t = child,
            }
        }
    }

    pub fn table_mut(&mut self, vaddr: u64, lvl: u8) -> Option<&mut Table> {
        let mut t = &mut self.root;
        while t.level > lvl {
            let i = idx(vaddr, t.level);
            match t.e.get_mut(&i) {
                Some(Entry::Table { t: child, .. }) => t = child,
                _ => return None,
            }
        }
        Some(t)
    }

    /// What the MMU does with `vaddr` according to the model.
    pub fn translate(&self, vaddr: u64) -> Option<Translation> {
        let mut t = &self.root;
        let (mut w, mut u, mut nx) = (true, true, false);
        loop {
            let lvl = t.level;
            match t.e.get(&idx(vaddr, lvl)) {
                None => return None,
                Some(Entry::Reserved(_)) => return None,
                Some(Entry::Leaf(raw)) => {
                    if raw & P == 0 {
                        return None;
                    }
                    let size = size_of_level(lvl);
                    let mask = ADDR_MASK & !(size - 1);
                    return Some(Translation {
                        phys: (raw & mask) | (vaddr & (size - 1)),
                        size,
                        raw_leaf: *raw,
                        writable: w && raw & W != 0,
                        user: u && raw & U != 0,
                        nx: nx || raw & NX != 0,
                    });
                }
                Some(Entry::Table { flags, t: child }) => {
                    if flags & P == 0 {
                        return None;
                    }
                    w &= flags & W != 0;
                    u &= flags & U != 0;
                    nx |= flags & NX != 0;
                    t = child;
                }
            }
        }
    }

    pub fn tables(&self) -> Vec<&Table> {
        let mut v = vec![];
        self.root.for_each_table(&mut |t| v.push(t));
        v
    }
    pub fn table_frames(&self) -> std::collections::BTreeSet<u64> {
        self.tables().iter().map(|t| t.frame).collect()
    }
}

/// Independent hardware walker over raw simulated memory (never calls the crate).
pub fn hw_translate(mem: &mut crate::simmem::PhysMem, p4_frame: u64, vaddr: u64) -> Option<Translation> {
    let mut table = p4_frame;
    let (mut w, mut u, mut nx) = (true, true, false);
    for level in (1..=4u8).rev() {
        let e = mem.read(table, idx(vaddr, level) as usize);
        if e & P == 0 {
            return None;
        }
        let leaf = level == 1 || (level <= 3 && e & HUGE != 0);
        if leaf {
            let size = size_of_level(level);
            let mask = ADDR_MASK & !(size - 1);
            return Some(Translation {
                phys: (e & mask) | (vaddr & (size - 1)),
                size,
                raw_leaf: e,
                writable: w && e & W != 0,
                user: u && e & U != 0,
                nx: nx || e & NX != 0,
            });
        }
        w &= e & W != 0;
        u &= e & U != 0;
        nx |= e & NX != 0;
        table = e & ADDR_MASK;
    }
    None
}
