//! /verif/KNOWN_FINDINGS.txt — committed, line oriented, never written at run time.
//!
//! ```text
//! open:  property=C02 sig=<signature> <what fails>
//! fixed: property=C07 <commit> <what failed>
//! ```
//! Only `open:` lines have an effect (see `Run::open_finding`); `fixed:` lines suppress nothing.

#[derive(Default, Debug, Clone)]
pub struct Known {
    open: Vec<(String, String, String)>, // property, sig, text
}

pub const PATH: &str = "/verif/KNOWN_FINDINGS.txt";

impl Known {
    pub fn load() -> Known {
        let mut k = Known::default();
        let text = match std::fs::read_to_string(PATH) {
            Ok(t) => t,
            Err(_) => return k,
        };
        for line in text.lines() {
            let line = line.trim();
            if let Some(rest) = line.strip_prefix("open:") {
                let mut prop = String::new();
                let mut sig = String::new();
                let mut words = vec![];
                for w in rest.split_whitespace() {
                    if let Some(p) = w.strip_prefix("property=") {
                        if prop.is_empty() {
                            prop = p.to_string();
                            continue;
                        }
                    }
                    if let Some(s) = w.strip_prefix("sig=") {
                        if sig.is_empty() {
                            sig = s.to_string();
                            continue;
                        }
                    }
                    words.push(w);
                }
                if !prop.is_empty() && !sig.is_empty() {
                    k.open.push((prop, sig, words.join(" ")));
                }
            }
        }
        k
    }

    pub fn open(&self, property: &str, sig: &str) -> Option<String> {
        self.open
            .iter()
            .find(|(p, s, _)| p == property && s == sig)
            .map(|(_, _, t)| t.clone())
    }

    pub fn open_sigs(&self, property: &str) -> Vec<String> {
        self.open
            .iter()
            .filter(|(p, _, _)| p == property)
            .map(|(_, s, _)| s.clone())
            .collect()
    }
}
