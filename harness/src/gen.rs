//! Generators (DESIGN 2.2). All randomness comes from proptest strategies.

use proptest::prelude::*;

pub const GAP_LO: u64 = 0x0000_8000_0000_0000; // first non-canonical
pub const GAP_HI: u64 = 0xffff_8000_0000_0000; // first canonical of the upper half
pub const LOW_LAST: u64 = 0x0000_7fff_ffff_ffff;
pub const PHYS_LIMIT: u64 = 1 << 52;

pub const BOUNDARIES: &[u64] = &[
    0,
    1 << 12,
    1 << 21,
    1 << 30,
    1 << 39,
    1 << 47,
    0x0000_7fff_ffff_f000,
    0x0000_7fff_ffe0_0000,
    0x0000_7fff_c000_0000,
    0xffff_7fff_ffff_ffff,
    0xffff_8000_0000_0000,
    1 << 48,
    0x000f_ffff_ffff_f000,
    1 << 52,
    1 << 53,
    1 << 63,
    0xffff_ffff_ffff_f000,
    0xffff_ffff_ffe0_0000,
    0xffff_ffff_c000_0000,
    u64::MAX,
    u64::MAX / 4096,
    u64::MAX / (1 << 21),
    u64::MAX / (1 << 30),
];

pub fn is_canonical(x: u64) -> bool {
    let top = x >> 47;
    top == 0 || top == 0x1ffff
}

pub fn sign_extend48(x: u64) -> u64 {
    if x & (1 << 47) != 0 {
        x | 0xffff_0000_0000_0000
    } else {
        x & 0x0000_ffff_ffff_ffff
    }
}

/// small distance, log-uniform-ish in 0..2^13, or a small multiple of a page size
pub fn small_k() -> impl Strategy<Value = u64> {
    prop_oneof![
        3 => 0u64..4,
        3 => (0u32..14, any::<u64>()).prop_map(|(b, r)| r & ((1u64 << b) - 1)),
        2 => (0u64..6, prop_oneof![Just(4096u64), Just(1u64 << 21), Just(1u64 << 30)])
            .prop_map(|(n, s)| n * s),
    ]
}

/// Edge-biased u64 (35 % uniform, 45 % boundary ± k, 20 % bit patterns).
pub fn u64_edge() -> impl Strategy<Value = u64> {
    prop_oneof![
        35 => any::<u64>(),
        45 => (0..BOUNDARIES.len(), small_k(), any::<bool>()).prop_map(|(i, k, up)| {
            let b = BOUNDARIES[i];
            if up { b.wrapping_add(k) } else { b.wrapping_sub(k) }
        }),
        8 => (0u32..64).prop_map(|b| 1u64 << b),
        6 => (0u32..64).prop_map(|b| (1u64 << b).wrapping_sub(1)),
        6 => (0u32..64).prop_map(|b| !((1u64 << b).wrapping_sub(1))),
    ]
}

/// 9-bit table index, edge biased.
pub fn idx9() -> impl Strategy<Value = u16> {
    prop_oneof![
        2 => Just(0u16),
        1 => Just(1u16),
        1 => Just(255u16),
        1 => Just(256u16),
        1 => Just(510u16),
        2 => Just(511u16),
        4 => 0u16..512,
    ]
}

pub fn off12() -> impl Strategy<Value = u16> {
    prop_oneof![
        2 => Just(0u16),
        1 => Just(1u16),
        2 => Just(4095u16),
        3 => 0u16..4096,
    ]
}

pub fn va_from_indices(p4: u16, p3: u16, p2: u16, p1: u16, off: u16) -> u64 {
    sign_extend48(
        ((p4 as u64) << 39) | ((p3 as u64) << 30) | ((p2 as u64) << 21) | ((p1 as u64) << 12) | off as u64,
    )
}

/// Canonical virtual address, both halves, table edges and gap neighbours frequent.
pub fn canon_va() -> impl Strategy<Value = u64> {
    prop_oneof![
        6 => (idx9(), idx9(), idx9(), idx9(), off12())
            .prop_map(|(a, b, c, d, o)| va_from_indices(a, b, c, d, o)),
        2 => any::<u64>().prop_map(sign_extend48),
        2 => (small_k(), any::<bool>(), 0usize..4).prop_map(|(k, up, which)| {
            // neighbours of the ends of the two halves
            match (which, up) {
                (0, _) => k & LOW_LAST,                 // bottom of lower half
                (1, _) => LOW_LAST - (k & 0xffff_ffff), // top of lower half
                (2, _) => GAP_HI + (k & 0xffff_ffff),   // bottom of upper half
                _ => u64::MAX - (k & 0xffff_ffff),      // top of upper half
            }
        }),
    ]
}

pub fn noncanon() -> impl Strategy<Value = u64> {
    prop_oneof![
        any::<u64>().prop_filter("non-canonical", |x| !is_canonical(*x)),
        (small_k()).prop_map(|k| GAP_LO + k),
        (small_k()).prop_map(|k| GAP_HI - 1 - k),
        (0u64..(1 << 47), 1u64..0x1ffff).prop_map(|(lo, top)| lo | (top << 47)),
    ]
}

/// Valid physical address (< 2^52), edge biased.
pub fn phys() -> impl Strategy<Value = u64> {
    prop_oneof![
        4 => any::<u64>().prop_map(|x| x & (PHYS_LIMIT - 1)),
        3 => small_k().prop_map(|k| k),
        3 => small_k().prop_map(|k| PHYS_LIMIT - 1 - k),
        2 => (12u32..52, small_k(), any::<bool>()).prop_map(|(b, k, up)| {
            let base = 1u64 << b;
            (if up { base.wrapping_add(k) } else { base.wrapping_sub(k) }) & (PHYS_LIMIT - 1)
        }),
    ]
}

pub fn pow2() -> impl Strategy<Value = u64> {
    (0u32..64).prop_map(|b| 1u64 << b)
}

pub fn non_pow2() -> impl Strategy<Value = u64> {
    prop_oneof![
        Just(0u64),
        Just(3u64),
        Just(u64::MAX),
        u64_edge().prop_filter("not a power of two", |x| !x.is_power_of_two()),
    ]
}

/// usize-like counts for Step: small, page multiples, >= 2^48, near u64::MAX / SIZE.
pub fn count() -> impl Strategy<Value = u64> {
    prop_oneof![
        3 => 0u64..8,
        3 => small_k(),
        3 => u64_edge(),
        2 => any::<u64>().prop_map(|x| x & 0xffff_ffff_ffff),
        1 => (small_k(), prop_oneof![Just(4096u64), Just(1u64 << 21), Just(1u64 << 30)], any::<bool>())
            .prop_map(|(k, s, up)| {
                let b = u64::MAX / s;
                if up { b.wrapping_add(k) } else { b.wrapping_sub(k) }
            }),
        1 => (small_k(), prop_oneof![Just(4096u64), Just(1u64 << 21), Just(1u64 << 30)], any::<bool>())
            .prop_map(|(k, s, up)| {
                let b = (1u64 << 48) / s;
                if up { b.wrapping_add(k) } else { b.wrapping_sub(k) }
            }),
    ]
}

/// Page size selector: 0 = 4 KiB, 1 = 2 MiB, 2 = 1 GiB
pub fn size_sel() -> impl Strategy<Value = u8> {
    0u8..3
}

pub fn size_of_sel(s: u8) -> u64 {
    match s {
        0 => 4096,
        1 => 1 << 21,
        _ => 1 << 30,
    }
}

/// Monotone map of a 16-bit index onto 0..len (so that shrinking moves to earlier entries).
pub fn pick(i: u16, len: usize) -> usize {
    if len == 0 {
        0
    } else {
        ((i as usize) * len) >> 16
    }
}
