//! Interrupt-delivery simulator (DESIGN 2.7): enter an IDT handler stub with a hand-built
//! hardware-format stack frame, exactly as the CPU does in 64-bit mode without a stack switch:
//! RSP := interrupted RSP aligned down to 16; push SS, RSP, RFLAGS, CS, RIP (and an error code);
//! jump to the gate's offset. The stub's `iretq` is legal in ring 3 and lands on `resume`.

use std::cell::UnsafeCell;

#[repr(C)]
#[derive(Default, Debug, Clone, Copy)]
pub struct DeliverArgs {
    pub handler: u64,      // 0
    pub mode: u64,         // 8   0 = no error code, 1 = with error code, 2 = plain call handler(err)
    pub err: u64,          // 16
    pub frame_rsp: u64,    // 24
    pub frame_rflags: u64, // 32
    pub cs: u64,           // 40
    pub ss: u64,           // 48
    pub out_rsp: u64,      // 56
    pub out_rflags: u64,   // 64
    pub saved_rsp: u64,    // 72
    pub resumed: u64,      // 80  1 = arrived at resume via iretq, 2 = left through escape
}

core::arch::global_asm!(
    ".globl vharness_deliver",
    ".type vharness_deliver,@function",
    "vharness_deliver:",
    "push rbp",
    "push rbx",
    "push r12",
    "push r13",
    "push r14",
    "push r15",
    "sub rsp, 8",
    "mov [rdi + 72], rsp",
    "mov [rip + {args}], rdi",
    "cmp qword ptr [rdi + 8], 2",
    "je 3f",
    // build the hardware frame below the "interrupted" stack pointer
    "mov rax, [rdi + 24]",
    "mov rsp, rax",
    "and rsp, -16",
    "push qword ptr [rdi + 48]",
    "push rax",
    "push qword ptr [rdi + 32]",
    "push qword ptr [rdi + 40]",
    "lea rcx, [rip + vharness_deliver_resume]",
    "push rcx",
    "cmp qword ptr [rdi + 8], 0",
    "je 2f",
    "push qword ptr [rdi + 16]",
    "2:",
    "mov rcx, [rdi]",
    "jmp rcx",
    "3:",
    // mode 2: ordinary call of a function that never returns normally (it ends in iretq)
    "mov rcx, [rdi]",
    "mov rdi, [rdi + 16]",
    "call rcx",
    "ud2",
    ".globl vharness_deliver_resume",
    "vharness_deliver_resume:",
    // RSP and RFLAGS are what iretq produced
    "pushfq",
    "pop rax",
    // back to harness flags: clear DF and NT (NT may come from the generated frame image and must
    // not survive: a later iretq with NT set would fault)
    "mov rcx, rax",
    "and rcx, -17409",
    "push rcx",
    "popfq",
    "mov rdi, [rip + {args}]",
    "mov [rdi + 64], rax",
    "mov [rdi + 56], rsp",
    "mov qword ptr [rdi + 80], 1",
    "4:",
    "mov rsp, [rdi + 72]",
    "add rsp, 8",
    "pop r15",
    "pop r14",
    "pop r13",
    "pop r12",
    "pop rbx",
    "pop rbp",
    "ret",
    ".globl vharness_deliver_escape",
    "vharness_deliver_escape:",
    "cld",
    "mov rdi, [rip + {args}]",
    "mov qword ptr [rdi + 80], 2",
    "jmp 4b",
    args = sym DELIVER_ARGS_PTR,
);

#[no_mangle]
static mut DELIVER_ARGS_PTR: u64 = 0;

extern "C" {
    pub fn vharness_deliver(args: *mut DeliverArgs);
    pub fn vharness_deliver_escape() -> !;
    pub fn vharness_deliver_resume();
}

pub struct Scratch(UnsafeCell<Vec<u8>>);
unsafe impl Sync for Scratch {}

/// A scratch stack on which handlers run; generated frame RSPs point into its upper part.
pub fn scratch_stack() -> (u64, u64) {
    static mut BUF: Option<(u64, u64)> = None;
    unsafe {
        if let Some(b) = *core::ptr::addr_of!(BUF) {
            return b;
        }
        let size = 1 << 20;
        let p = libc::mmap(
            core::ptr::null_mut(),
            size,
            libc::PROT_READ | libc::PROT_WRITE,
            libc::MAP_PRIVATE | libc::MAP_ANONYMOUS,
            -1,
            0,
        );
        assert!(p != libc::MAP_FAILED);
        let b = (p as u64, p as u64 + size as u64);
        *core::ptr::addr_of_mut!(BUF) = Some(b);
        b
    }
}

pub fn native_cs_ss() -> (u16, u16) {
    let (cs, ss): (u16, u16);
    unsafe {
        core::arch::asm!("mov {0:x}, cs", "mov {1:x}, ss", out(reg) cs, out(reg) ss, options(nomem, nostack, preserves_flags));
    }
    (cs, ss)
}

/// Deliver a simulated interrupt to `handler`. Returns the filled-in args.
pub fn deliver(handler: u64, err: Option<u64>, frame_rsp: u64, frame_rflags: u64) -> DeliverArgs {
    let (cs, ss) = native_cs_ss();
    let mut a = DeliverArgs {
        handler,
        mode: err.is_some() as u64,
        err: err.unwrap_or(0),
        frame_rsp,
        frame_rflags,
        cs: cs as u64,
        ss: ss as u64,
        ..Default::default()
    };
    unsafe { vharness_deliver(&mut a) };
    a
}

/// Call `f(arg)` (which must end in an `iretq` to `vharness_deliver_resume`) and report the state
/// at the resume label.
pub fn call_noreturn(f: extern "C" fn(u64) -> !, arg: u64) -> DeliverArgs {
    let mut a = DeliverArgs { handler: f as usize as u64, mode: 2, err: arg, ..Default::default() };
    unsafe { vharness_deliver(&mut a) };
    a
}
