//! UMH — user-mode trap-and-emulate (DESIGN 2.4).
//!
//! Privileged instructions executed in ring 3 raise #GP/#UD, delivered by Linux as SIGSEGV
//! (si_code = SI_KERNEL) / SIGILL with the faulting RIP and the register file in the ucontext. The
//! handler decodes the instruction at RIP (decoder written from the instruction-set manuals, it
//! never calls the crate), applies its effect to an emulated register file, logs it, advances RIP
//! and returns. Faults that are neither a known privileged instruction nor claimed by the software
//! MMU are turned into a Rust panic at the faulting instruction ("unexpected fault"), so that the
//! running case fails instead of the process dying.

use serde::Serialize;
use std::sync::atomic::{AtomicBool, Ordering};

#[derive(Clone, Copy, Debug, PartialEq, Eq, Serialize)]
pub enum Op {
    Cli,
    Sti,
    Hlt,
    /// a = port (DX), b = value delivered (of the access width), c = width in bits
    In,
    /// a = port (DX), b = value written (masked to the width), c = width in bits
    Out,
    /// immediate-port or string forms: never what a port object may execute. a = opcode byte
    BadIo,
    /// a = control register number, b = value read, c = destination GPR number
    MovFromCr,
    /// a = control register number, b = value written, c = source GPR number
    MovToCr,
    MovFromDr,
    MovToDr,
    /// a = ECX (index), b = value returned
    Rdmsr,
    /// a = ECX (index), b = EDX:EAX
    Wrmsr,
    /// a = ECX, b = EDX:EAX
    Xsetbv,
    /// a = effective address of the 10-byte operand, b = limit, c = base
    Lgdt,
    Lidt,
    /// a = selector
    Ltr,
    Lldt,
    /// a = segment register number (0 ES, 1 CS, 2 SS, 3 DS, 4 FS, 5 GS), b = selector
    MovSreg,
    /// a = CS popped, b = RIP popped
    Retfq,
    /// a = effective address
    Invlpg,
    /// a = type (register operand), b = descriptor[0], c = descriptor[1]
    Invpcid,
    /// a = RAX, b = ECX, c = EDX
    Invlpgb,
    Tlbsync,
    Swapgs,
    /// a = first 8 instruction bytes
    Unknown,
}

#[derive(Clone, Copy, Debug, PartialEq, Eq, Serialize)]
pub struct Trap {
    pub rip: u64,
    pub len: u8,
    pub op: Op,
    pub a: u64,
    pub b: u64,
    pub c: u64,
}

/// Optional memory probe: when set, the word it points to is sampled at every trapped `cli`/`sti`
/// (field `c` of the trap record), i.e. what memory looks like at the moment the flag changes.
pub static PROBE: core::sync::atomic::AtomicPtr<u64> = core::sync::atomic::AtomicPtr::new(core::ptr::null_mut());
fn probe_value() -> u64 {
    let p = PROBE.load(Ordering::Relaxed);
    if p.is_null() {
        0
    } else {
        unsafe { core::ptr::read_volatile(p) }
    }
}

pub const LOG_CAP: usize = 4096;
pub const MSR_CAP: usize = 64;
pub const INQ_CAP: usize = 64;

pub struct Cpu {
    pub cr: [u64; 16],
    pub dr: [u64; 8],
    pub msr: [(u32, u64); MSR_CAP],
    pub msr_len: usize,
    pub xcr0: u64,
    pub if_flag: bool,
    /// mirror IF into hook H2's RFLAGS overlay
    pub if_overlay: bool,
    pub inq: [u64; INQ_CAP],
    pub inq_head: usize,
    pub inq_len: usize,
    pub log: [Trap; LOG_CAP],
    pub log_len: usize,
    pub log_overflow: bool,
    pub sreg: [u16; 6],
    pub tr: u16,
    pub gdtr: (u16, u64),
    pub idtr: (u16, u64),
    /// value read from an MSR that was never written in this case
    pub msr_default: u64,
    pub unexpected: u64,
}

const EMPTY_TRAP: Trap = Trap { rip: 0, len: 0, op: Op::Unknown, a: 0, b: 0, c: 0 };

static mut CPU: Cpu = Cpu {
    cr: [0; 16],
    dr: [0; 8],
    msr: [(0, 0); MSR_CAP],
    msr_len: 0,
    xcr0: 1,
    if_flag: true,
    if_overlay: false,
    inq: [0; INQ_CAP],
    inq_head: 0,
    inq_len: 0,
    log: [EMPTY_TRAP; LOG_CAP],
    log_len: 0,
    log_overflow: false,
    sreg: [0; 6],
    tr: 0,
    gdtr: (0, 0),
    idtr: (0, 0),
    msr_default: 0,
    unexpected: 0,
};

#[allow(static_mut_refs)]
pub fn cpu() -> &'static mut Cpu {
    // The signal handler changes CPU behind the compiler's back (the crate's asm blocks are marked
    // `nomem`): a singlethread fence forces every later read to be a real load.
    fence();
    unsafe { &mut *core::ptr::addr_of_mut!(CPU) }
}

#[inline(always)]
pub fn fence() {
    core::sync::atomic::compiler_fence(Ordering::SeqCst);
}

impl Cpu {
    /// Reset everything a case can observe.
    pub fn reset(&mut self) {
        fence();
        self.cr = [0; 16];
        self.dr = [0; 8];
        self.msr_len = 0;
        self.xcr0 = 1;
        self.if_flag = true;
        self.inq_head = 0;
        self.inq_len = 0;
        self.log_len = 0;
        self.log_overflow = false;
        self.sreg = [0; 6];
        self.tr = 0;
        self.gdtr = (0, 0);
        self.idtr = (0, 0);
        self.msr_default = 0;
        self.unexpected = 0;
        self.set_if_overlay(false);
        x86_64::registers::xcontrol::verif_hooks::ENABLED.store(false, Ordering::Relaxed);
        fence();
    }
    pub fn set_cr(&mut self, n: u8, v: u64) {
        self.cr[(n & 15) as usize] = v;
        fence();
    }
    pub fn set_dr(&mut self, n: u8, v: u64) {
        self.dr[(n & 7) as usize] = v;
        fence();
    }
    pub fn clear_log(&mut self) {
        fence();
        self.log_len = 0;
        self.log_overflow = false;
        fence();
    }
    pub fn log(&self) -> &[Trap] {
        fence();
        &self.log[..self.log_len]
    }
    pub fn take_log(&mut self) -> Vec<Trap> {
        fence();
        let v = self.log[..self.log_len].to_vec();
        self.clear_log();
        v
    }
    pub fn msr_get(&self, idx: u32) -> Option<u64> {
        fence();
        self.msr[..self.msr_len].iter().find(|(i, _)| *i == idx).map(|(_, v)| *v)
    }
    pub fn msr_set(&mut self, idx: u32, val: u64) {
        fence();
        for e in self.msr[..self.msr_len].iter_mut() {
            if e.0 == idx {
                e.1 = val;
                fence();
                return;
            }
        }
        if self.msr_len < MSR_CAP {
            self.msr[self.msr_len] = (idx, val);
            self.msr_len += 1;
        }
        fence();
    }
    pub fn push_in(&mut self, v: u64) {
        fence();
        if self.inq_len < INQ_CAP {
            self.inq[(self.inq_head + self.inq_len) % INQ_CAP] = v;
            self.inq_len += 1;
        }
        fence();
    }
    fn pop_in(&mut self) -> u64 {
        if self.inq_len == 0 {
            return 0xdead_beef_cafe_f00d;
        }
        let v = self.inq[self.inq_head];
        self.inq_head = (self.inq_head + 1) % INQ_CAP;
        self.inq_len -= 1;
        v
    }
    /// Turn the RFLAGS overlay of hook H2 on/off: the value read by `rflags::read_raw` shows the
    /// emulated IF.
    pub fn set_if_overlay(&mut self, on: bool) {
        self.set_flags_overlay(on, 0, 0);
    }
    /// Overlay the emulated IF plus arbitrary other bits (`noise_mask`/`noise_value`, bit 9 excluded)
    /// on the value `rflags::read_raw` returns.
    pub fn set_flags_overlay(&mut self, on: bool, noise_mask: u64, noise_value: u64) {
        use x86_64::registers::rflags::verif_hooks::{MASK, VALUE};
        self.if_overlay = on;
        let nm = if on { noise_mask & !(1 << 9) } else { 0 };
        MASK.store(if on { (1 << 9) | nm } else { 0 }, Ordering::Relaxed);
        VALUE.store((if self.if_flag { 1 << 9 } else { 0 }) | (noise_value & nm), Ordering::Relaxed);
        fence();
    }
    pub fn set_if(&mut self, v: bool) {
        use x86_64::registers::rflags::verif_hooks::VALUE;
        self.if_flag = v;
        if self.if_overlay {
            let old = VALUE.load(Ordering::Relaxed);
            VALUE.store((old & !(1 << 9)) | if v { 1 << 9 } else { 0 }, Ordering::Relaxed);
        }
        fence();
    }
    /// Supply the emulated XCR0 to the crate's `xgetbv` wrapper (hook H4).
    pub fn set_xcr0(&mut self, v: u64) {
        use x86_64::registers::xcontrol::verif_hooks::{ENABLED, VALUE};
        self.xcr0 = v;
        VALUE.store(v, Ordering::Relaxed);
        ENABLED.store(true, Ordering::Relaxed);
        fence();
    }
    fn push_log(&mut self, t: Trap) {
        if self.log_len < LOG_CAP {
            self.log[self.log_len] = t;
            self.log_len += 1;
        } else {
            self.log_overflow = true;
        }
    }
}

// ------------------------------------------------------------------------------------------------
// page-fault hook (software MMU) and guard regions
// ------------------------------------------------------------------------------------------------

/// Called for SEGV_MAPERR / SEGV_ACCERR faults: (fault address, is_write, rip) -> handled?
pub static mut PF_HOOK: Option<unsafe fn(u64, bool, u64) -> bool> = None;

// ------------------------------------------------------------------------------------------------
// decoder
// ------------------------------------------------------------------------------------------------

const GREG_OF_REGNUM: [usize; 16] = [
    libc::REG_RAX as usize,
    libc::REG_RCX as usize,
    libc::REG_RDX as usize,
    libc::REG_RBX as usize,
    libc::REG_RSP as usize,
    libc::REG_RBP as usize,
    libc::REG_RSI as usize,
    libc::REG_RDI as usize,
    libc::REG_R8 as usize,
    libc::REG_R9 as usize,
    libc::REG_R10 as usize,
    libc::REG_R11 as usize,
    libc::REG_R12 as usize,
    libc::REG_R13 as usize,
    libc::REG_R14 as usize,
    libc::REG_R15 as usize,
];

pub struct Regs<'a> {
    pub g: &'a mut [i64; 23],
}

impl<'a> Regs<'a> {
    pub fn get(&self, n: u8) -> u64 {
        self.g[GREG_OF_REGNUM[(n & 15) as usize]] as u64
    }
    pub fn set(&mut self, n: u8, v: u64) {
        self.g[GREG_OF_REGNUM[(n & 15) as usize]] = v as i64;
    }
    pub fn rip(&self) -> u64 {
        self.g[libc::REG_RIP as usize] as u64
    }
}

/// Decoded ModRM memory/register operand.
struct ModRm {
    modb: u8,
    reg: u8, // with REX.R
    rm: u8,  // with REX.B (register form)
    ea: u64, // effective address (memory form)
    len: usize,
}

unsafe fn decode_modrm(p: *const u8, rex: u8, regs: &Regs, next_ip_base: u64, prefix_len: usize) -> ModRm {
    // p points at the ModRM byte; next_ip_base = rip, prefix_len = bytes before modrm
    let m = *p;
    let modb = m >> 6;
    let reg = ((m >> 3) & 7) | if rex & 4 != 0 { 8 } else { 0 };
    let rm_lo = m & 7;
    let mut len = 1usize;
    let mut ea = 0u64;
    let rm = rm_lo | if rex & 1 != 0 { 8 } else { 0 };
    if modb != 3 {
        let mut base: u64;
        if rm_lo == 4 {
            // SIB
            let sib = *p.add(len);
            len += 1;
            let scale = 1u64 << (sib >> 6);
            let index = ((sib >> 3) & 7) | if rex & 2 != 0 { 8 } else { 0 };
            let b = (sib & 7) | if rex & 1 != 0 { 8 } else { 0 };
            base = if (sib & 7) == 5 && modb == 0 {
                let d = core::ptr::read_unaligned(p.add(len) as *const i32) as i64 as u64;
                len += 4;
                d
            } else {
                regs.get(b)
            };
            if index != 4 {
                base = base.wrapping_add(regs.get(index).wrapping_mul(scale));
            }
        } else if rm_lo == 5 && modb == 0 {
            // RIP relative: relative to the end of the instruction; fixed up by the caller via len
            let d = core::ptr::read_unaligned(p.add(len) as *const i32) as i64 as u64;
            len += 4;
            // caller adds trailing immediate bytes (none for our instructions)
            base = next_ip_base.wrapping_add((prefix_len + len) as u64).wrapping_add(d);
        } else {
            base = regs.get(rm);
        }
        if modb == 1 {
            let d = *(p.add(len) as *const i8) as i64 as u64;
            len += 1;
            base = base.wrapping_add(d);
        } else if modb == 2 {
            let d = core::ptr::read_unaligned(p.add(len) as *const i32) as i64 as u64;
            len += 4;
            base = base.wrapping_add(d);
        }
        ea = base;
    }
    ModRm { modb, reg, rm, ea, len }
}

/// Decode and emulate the instruction at RIP. Returns the trap (with length) or None if this is
/// not an instruction we emulate.
unsafe fn emulate(regs: &mut Regs) -> Option<Trap> {
    let rip = regs.rip();
    let code = rip as *const u8;
    let mut i = 0usize;
    let mut opsize16 = false;
    // legacy prefixes
    loop {
        match *code.add(i) {
            0x66 => {
                opsize16 = true;
                i += 1
            }
            0xF2 | 0xF3 | 0x2E | 0x36 | 0x3E | 0x26 | 0x64 | 0x65 | 0x67 => i += 1,
            _ => break,
        }
        if i > 4 {
            return None;
        }
    }
    let mut rex = 0u8;
    if *code.add(i) & 0xF0 == 0x40 {
        rex = *code.add(i);
        i += 1;
    }
    let c = cpu();
    let op = *code.add(i);
    let mut t = Trap { rip, len: 0, op: Op::Unknown, a: 0, b: 0, c: 0 };
    match op {
        0xFA => {
            c.set_if(false);
            t.op = Op::Cli;
            t.c = probe_value();
            i += 1;
        }
        0xFB => {
            c.set_if(true);
            t.op = Op::Sti;
            t.c = probe_value();
            i += 1;
        }
        0xF4 => {
            t.op = Op::Hlt;
            i += 1;
        }
        0xEC | 0xED => {
            let width: u64 = if op == 0xEC { 8 } else if opsize16 { 16 } else { 32 };
            let dev = c.pop_in();
            let rax = regs.get(0);
            // `in al/ax` leave the rest of RAX as it was, and what was there before is whatever the
            // caller's code happened to leave (the wrappers declare no input in RAX): the handler
            // substitutes a fixed non-zero pattern for it, so that a wrapper which wrongly relies on the
            // upper bits (e.g. treats the full EAX as the zero-extended value) shows it in every run
            let _ = rax;
            const STALE: u64 = 0x5A5A_A5A5_DEAD_BE00;
            let (val, newrax) = match width {
                8 => (dev & 0xff, (STALE & !0xff) | (dev & 0xff)),
                16 => (dev & 0xffff, (STALE & !0xffff) | (dev & 0xffff)),
                _ => (dev & 0xffff_ffff, dev & 0xffff_ffff),
            };
            regs.set(0, newrax);
            t.op = Op::In;
            t.a = regs.get(2) & 0xffff;
            t.b = val;
            t.c = width;
            i += 1;
        }
        0xEE | 0xEF => {
            let width: u64 = if op == 0xEE { 8 } else if opsize16 { 16 } else { 32 };
            let rax = regs.get(0);
            t.op = Op::Out;
            t.a = regs.get(2) & 0xffff;
            t.b = match width {
                8 => rax & 0xff,
                16 => rax & 0xffff,
                _ => rax & 0xffff_ffff,
            };
            t.c = width;
            i += 1;
        }
        0xE4 | 0xE5 | 0xE6 | 0xE7 => {
            t.op = Op::BadIo;
            t.a = op as u64;
            i += 2;
        }
        0x6C | 0x6D | 0x6E | 0x6F => {
            t.op = Op::BadIo;
            t.a = op as u64;
            i += 1;
        }
        0x8E => {
            let m = decode_modrm(code.add(i + 1), rex, regs, rip, i + 1);
            let sel = if m.modb == 3 { regs.get(m.rm) as u16 } else { core::ptr::read_unaligned(m.ea as *const u16) };
            t.op = Op::MovSreg;
            t.a = (m.reg & 7) as u64;
            t.b = sel as u64;
            if (m.reg & 7) < 6 {
                c.sreg[(m.reg & 7) as usize] = sel;
            }
            i += 1 + m.len;
        }
        0xCB => {
            // far return: pops RIP then CS (8 bytes each with REX.W)
            let rsp = regs.get(4);
            let (new_rip, new_cs, pop) = if rex & 8 != 0 {
                (*(rsp as *const u64), *((rsp + 8) as *const u64) as u16, 16)
            } else {
                (*(rsp as *const u32) as u64, *((rsp + 4) as *const u32) as u16, 8)
            };
            t.op = Op::Retfq;
            t.a = new_cs as u64;
            t.b = new_rip;
            t.c = (rex & 8 != 0) as u64;
            c.sreg[1] = new_cs;
            regs.set(4, rsp + pop);
            t.len = (i + 1) as u8;
            c.push_log(t);
            regs.g[libc::REG_RIP as usize] = new_rip as i64;
            return Some(t);
        }
        0x0F => {
            let op2 = *code.add(i + 1);
            match op2 {
                0x20 | 0x21 | 0x22 | 0x23 => {
                    let m = *code.add(i + 2);
                    let n = ((m >> 3) & 7) | if rex & 4 != 0 { 8 } else { 0 };
                    let g = (m & 7) | if rex & 1 != 0 { 8 } else { 0 };
                    match op2 {
                        0x20 => {
                            let v = c.cr[n as usize];
                            regs.set(g, v);
                            t.op = Op::MovFromCr;
                            t.a = n as u64;
                            t.b = v;
                            t.c = g as u64;
                        }
                        0x22 => {
                            let v = regs.get(g);
                            c.cr[n as usize] = v;
                            t.op = Op::MovToCr;
                            t.a = n as u64;
                            t.b = v;
                            t.c = g as u64;
                        }
                        0x21 => {
                            let v = c.dr[(n & 7) as usize];
                            regs.set(g, v);
                            t.op = Op::MovFromDr;
                            t.a = n as u64;
                            t.b = v;
                            t.c = g as u64;
                        }
                        _ => {
                            let v = regs.get(g);
                            c.dr[(n & 7) as usize] = v;
                            t.op = Op::MovToDr;
                            t.a = n as u64;
                            t.b = v;
                            t.c = g as u64;
                        }
                    }
                    i += 3;
                }
                0x32 => {
                    let idx = regs.get(1) as u32;
                    let v = c.msr_get(idx).unwrap_or(c.msr_default);
                    regs.set(0, v & 0xffff_ffff);
                    regs.set(2, v >> 32);
                    t.op = Op::Rdmsr;
                    t.a = idx as u64;
                    t.b = v;
                    t.c = regs.get(1);
                    i += 2;
                }
                0x30 => {
                    let idx = regs.get(1) as u32;
                    let v = (regs.get(0) & 0xffff_ffff) | (regs.get(2) << 32);
                    c.msr_set(idx, v);
                    t.op = Op::Wrmsr;
                    t.a = idx as u64;
                    t.b = v;
                    t.c = regs.get(1);
                    i += 2;
                }
                0x00 => {
                    let m = decode_modrm(code.add(i + 2), rex, regs, rip, i + 2);
                    let sel = if m.modb == 3 { regs.get(m.rm) as u16 } else { core::ptr::read_unaligned(m.ea as *const u16) };
                    match m.reg & 7 {
                        3 => {
                            t.op = Op::Ltr;
                            c.tr = sel;
                        }
                        2 => t.op = Op::Lldt,
                        _ => return None,
                    }
                    t.a = sel as u64;
                    i += 2 + m.len;
                }
                0x01 => {
                    let mb = *code.add(i + 2);
                    if mb >> 6 == 3 {
                        match mb {
                            0xD1 => {
                                let v = (regs.get(0) & 0xffff_ffff) | (regs.get(2) << 32);
                                t.op = Op::Xsetbv;
                                t.a = regs.get(1) & 0xffff_ffff;
                                t.b = v;
                                if t.a == 0 {
                                    c.set_xcr0(v);
                                }
                            }
                            0xF8 => {
                                t.op = Op::Swapgs;
                                let g = c.msr_get(0xC000_0101).unwrap_or(c.msr_default);
                                let k = c.msr_get(0xC000_0102).unwrap_or(c.msr_default);
                                c.msr_set(0xC000_0101, k);
                                c.msr_set(0xC000_0102, g);
                            }
                            0xFE => {
                                t.op = Op::Invlpgb;
                                t.a = regs.get(0);
                                t.b = regs.get(1) & 0xffff_ffff;
                                t.c = regs.get(2) & 0xffff_ffff;
                            }
                            0xFF => t.op = Op::Tlbsync,
                            _ => return None,
                        }
                        i += 3;
                    } else {
                        let m = decode_modrm(code.add(i + 2), rex, regs, rip, i + 2);
                        match m.reg & 7 {
                            2 | 3 => {
                                let limit = core::ptr::read_unaligned(m.ea as *const u16);
                                let base = core::ptr::read_unaligned((m.ea + 2) as *const u64);
                                t.a = m.ea;
                                t.b = limit as u64;
                                t.c = base;
                                if m.reg & 7 == 2 {
                                    t.op = Op::Lgdt;
                                    c.gdtr = (limit, base);
                                } else {
                                    t.op = Op::Lidt;
                                    c.idtr = (limit, base);
                                }
                            }
                            7 => {
                                t.op = Op::Invlpg;
                                t.a = m.ea;
                            }
                            _ => return None,
                        }
                        i += 2 + m.len;
                    }
                }
                0x38 if *code.add(i + 2) == 0x82 && opsize16 => {
                    let m = decode_modrm(code.add(i + 3), rex, regs, rip, i + 3);
                    if m.modb == 3 {
                        return None;
                    }
                    t.op = Op::Invpcid;
                    t.a = regs.get(m.reg);
                    t.b = core::ptr::read_unaligned(m.ea as *const u64);
                    t.c = core::ptr::read_unaligned((m.ea + 8) as *const u64);
                    i += 3 + m.len;
                }
                _ => return None,
            }
        }
        _ => return None,
    }
    t.len = i as u8;
    c.push_log(t);
    regs.g[libc::REG_RIP as usize] = (rip + i as u64) as i64;
    Some(t)
}

// ------------------------------------------------------------------------------------------------
// unexpected faults -> Rust panic at the faulting instruction
// ------------------------------------------------------------------------------------------------

#[derive(Clone, Copy, Debug, Default)]
pub struct FaultInfo {
    pub sig: i32,
    pub code: i32,
    pub addr: u64,
    pub rip: u64,
    pub bytes: [u8; 8],
}
pub static mut LAST_FAULT: FaultInfo = FaultInfo { sig: 0, code: 0, addr: 0, rip: 0, bytes: [0; 8] };

// Guarded calls: `vharness_guarded_call(cb, data, buf)` saves the callee-saved registers and its
// stack pointer in `buf`, then calls `cb(data)` and returns 0. On an unexpected fault the signal
// handler rewrites the interrupted context to continue at `vharness_fault_resume` with the saved
// stack pointer: the frames of the faulting call are abandoned (their destructors do not run; this
// only happens on the failure path) and the function returns 1. Unwinding through the faulting
// frame is not possible in general because LSDA call-site tables only cover call instructions.
core::arch::global_asm!(
    ".globl vharness_guarded_call",
    ".type vharness_guarded_call,@function",
    "vharness_guarded_call:",
    "push rbp",
    "push rbx",
    "push r12",
    "push r13",
    "push r14",
    "push r15",
    "sub rsp, 8",
    "mov [rdx], rsp",
    "mov rax, rdi",
    "mov rdi, rsi",
    "call rax",
    "xor eax, eax",
    "2:",
    "add rsp, 8",
    "pop r15",
    "pop r14",
    "pop r13",
    "pop r12",
    "pop rbx",
    "pop rbp",
    "ret",
    ".globl vharness_fault_resume",
    "vharness_fault_resume:",
    "cld",
    "mov eax, 1",
    "jmp 2b",
);

extern "C" {
    fn vharness_guarded_call(cb: unsafe extern "C" fn(*mut u8), data: *mut u8, buf: *mut u64) -> u64;
    fn vharness_fault_resume();
}

/// innermost active guard: pointer to its saved stack pointer (null = none)
static mut CUR_GUARD: *mut u64 = core::ptr::null_mut();

/// Trapped-and-emulated instructions since the innermost `guarded` call began, and the budget after
/// which the call is abandoned: a wrapper that re-issues privileged instructions for ever (e.g. a
/// chunking loop whose position stops advancing) becomes a reported failure instead of a hang.
static mut TRAPS_IN_GUARD: u64 = 0;
pub const TRAP_BUDGET: u64 = 400_000;
const SIG_BUDGET: libc::c_int = -1;

/// Run `f`; a Rust panic or an unexpected fault inside it is returned as `Err(message)`.
pub fn guarded<T, F: FnOnce() -> T>(f: F) -> Result<T, String> {
    struct Slot<F, T> {
        f: Option<F>,
        out: Option<std::thread::Result<T>>,
    }
    unsafe extern "C" fn cb<F: FnOnce() -> T, T>(data: *mut u8) {
        let slot = &mut *(data as *mut Slot<F, T>);
        let f = slot.f.take().unwrap();
        slot.out = Some(std::panic::catch_unwind(std::panic::AssertUnwindSafe(f)));
    }
    let mut slot: Slot<F, T> = Slot { f: Some(f), out: None };
    let mut saved_rsp: u64 = 0;
    unsafe {
        let prev = *core::ptr::addr_of!(CUR_GUARD);
        let prev_traps = *core::ptr::addr_of!(TRAPS_IN_GUARD);
        *core::ptr::addr_of_mut!(TRAPS_IN_GUARD) = 0;
        *core::ptr::addr_of_mut!(CUR_GUARD) = &mut saved_rsp;
        let r = vharness_guarded_call(cb::<F, T>, &mut slot as *mut _ as *mut u8, &mut saved_rsp);
        *core::ptr::addr_of_mut!(CUR_GUARD) = prev;
        *core::ptr::addr_of_mut!(TRAPS_IN_GUARD) = prev_traps;
        if r != 0 {
            let f = *core::ptr::addr_of!(LAST_FAULT);
            // the closure's frames were abandoned; do not run the closure's destructor twice
            core::mem::forget(slot);
            if f.sig == SIG_BUDGET {
                return Err(format!(
                    "TRAP-BUDGET-EXCEEDED: more than {} privileged instructions were trapped in one call (the call does not terminate); last at rip={:#x} bytes={:02x?}",
                    TRAP_BUDGET, f.rip, f.bytes
                ));
            }
            return Err(format!(
                "UNEXPECTED-FAULT signal={} si_code={:#x} addr={:#x} rip={:#x} bytes={:02x?}",
                f.sig, f.code, f.addr, f.rip, f.bytes
            ));
        }
    }
    match slot.out.take() {
        Some(Ok(v)) => Ok(v),
        Some(Err(_)) => Err(crate::engine::last_panic_message()),
        None => Err("guarded call returned without a result".to_string()),
    }
}

static INSTALLED: AtomicBool = AtomicBool::new(false);
/// When false, unexpected faults terminate the process with status 2 (default for code that
/// cannot unwind, e.g. interrupt stubs).
pub static PANIC_ON_UNEXPECTED: AtomicBool = AtomicBool::new(true);

unsafe extern "C" fn on_signal(sig: libc::c_int, info: *mut libc::siginfo_t, ctx: *mut libc::c_void) {
    let uc = &mut *(ctx as *mut libc::ucontext_t);
    let gregs: &mut [i64; 23] = &mut uc.uc_mcontext.gregs;
    let code = (*info).si_code;
    let addr = (*info).si_addr() as u64;
    let rip = gregs[libc::REG_RIP as usize] as u64;
    let mut regs = Regs { g: gregs };
    if sig == libc::SIGSEGV && (code == 1 || code == 2) {
        // page fault: software MMU / guard regions
        let err = regs.g[libc::REG_ERR as usize] as u64;
        if let Some(h) = *core::ptr::addr_of!(PF_HOOK) {
            if h(addr, err & 2 != 0, rip) {
                return;
            }
        }
    } else if (sig == libc::SIGSEGV && code == 0x80) || sig == libc::SIGILL {
        if emulate(&mut regs).is_some() {
            let n = *core::ptr::addr_of!(TRAPS_IN_GUARD) + 1;
            *core::ptr::addr_of_mut!(TRAPS_IN_GUARD) = n;
            let guard = *core::ptr::addr_of!(CUR_GUARD);
            if n > TRAP_BUDGET && !guard.is_null() {
                let mut bytes = [0u8; 8];
                for k in 0..8 {
                    bytes[k] = *((rip + k as u64) as *const u8);
                }
                *core::ptr::addr_of_mut!(LAST_FAULT) = FaultInfo { sig: SIG_BUDGET, code, addr, rip, bytes };
                *core::ptr::addr_of_mut!(TRAPS_IN_GUARD) = 0;
                regs.set(4, *guard);
                regs.g[libc::REG_RIP as usize] = vharness_fault_resume as *const () as usize as i64;
            }
            return;
        }
    }
    // unexpected
    let mut bytes = [0u8; 8];
    // the code at rip may itself be unreadable (wild jump): only read if rip looks like our text
    if code != 1 || addr != rip {
        for k in 0..8 {
            bytes[k] = *((rip + k as u64) as *const u8);
        }
    }
    *core::ptr::addr_of_mut!(LAST_FAULT) = FaultInfo { sig, code, addr, rip, bytes };
    cpu().unexpected += 1;
    let guard = *core::ptr::addr_of!(CUR_GUARD);
    if PANIC_ON_UNEXPECTED.load(Ordering::Relaxed) && !guard.is_null() && cpu().unexpected < 100_000 {
        // abandon the faulting call: continue in the innermost guarded_call with its saved stack
        regs.set(4, *guard);
        regs.g[libc::REG_RIP as usize] = vharness_fault_resume as *const () as usize as i64;
        return;
    }
    let msg = b"vharness: unexpected fault outside a recoverable region; exiting 2: sig/code/addr/rip/rsp = ";
    libc::write(2, msg.as_ptr() as *const libc::c_void, msg.len());
    for v in [sig as u64, code as u64, addr, rip, regs.get(4)] {
        let mut buf = [b'0'; 19];
        buf[0] = b' ';
        buf[1] = b'0';
        buf[2] = b'x';
        for k in 0..16 {
            let d = ((v >> (60 - 4 * k)) & 0xf) as u8;
            buf[3 + k] = if d < 10 { b'0' + d } else { b'a' + d - 10 };
        }
        libc::write(2, buf.as_ptr() as *const libc::c_void, buf.len());
    }
    libc::write(2, b"\n".as_ptr() as *const libc::c_void, 1);
    libc::_exit(2);
}

/// Install the SIGSEGV/SIGILL handler on an alternate stack (idempotent).
pub fn install() {
    if INSTALLED.swap(true, Ordering::SeqCst) {
        return;
    }
    unsafe {
        let stack_size = 1 << 20;
        let stack = libc::mmap(
            core::ptr::null_mut(),
            stack_size,
            libc::PROT_READ | libc::PROT_WRITE,
            libc::MAP_PRIVATE | libc::MAP_ANONYMOUS,
            -1,
            0,
        );
        assert!(stack != libc::MAP_FAILED);
        let ss = libc::stack_t { ss_sp: stack, ss_flags: 0, ss_size: stack_size };
        assert_eq!(libc::sigaltstack(&ss, core::ptr::null_mut()), 0);
        let mut sa: libc::sigaction = core::mem::zeroed();
        sa.sa_sigaction = on_signal as usize;
        sa.sa_flags = libc::SA_SIGINFO | libc::SA_ONSTACK | libc::SA_NODEFER;
        libc::sigemptyset(&mut sa.sa_mask);
        assert_eq!(libc::sigaction(libc::SIGSEGV, &sa, core::ptr::null_mut()), 0);
        assert_eq!(libc::sigaction(libc::SIGILL, &sa, core::ptr::null_mut()), 0);
        assert_eq!(libc::sigaction(libc::SIGBUS, &sa, core::ptr::null_mut()), 0);
    }
    selftest();
}

/// Start-up self-test: hand-assembled encodings of the supported instructions are executed
/// natively (they trap) and must decode to the expected operation, operands and length.
fn selftest() {
    use core::arch::asm;
    let c = cpu();
    c.reset();
    unsafe {
        // cli / sti / hlt
        asm!("cli", "sti", "hlt", options(nomem, nostack));
        // mov cr3 <-> r15 (REX.B), mov r9, cr4; mov cr8 (REX.R)
        asm!("mov cr3, {0}", "mov {1}, cr3", in(reg) 0x1234_5000u64, out(reg) _, options(nomem, nostack));
        asm!("mov r15, 0x77", "mov cr4, r15", "mov r9, cr4", out("r15") _, out("r9") _, options(nomem, nostack));
        asm!("mov cr8, {0}", in(reg) 5u64, options(nomem, nostack));
        // wrmsr / rdmsr
        asm!("wrmsr", in("ecx") 0xC000_0080u32, in("eax") 0x11u32, in("edx") 0x22u32, options(nomem, nostack));
        let (lo, hi): (u32, u32);
        asm!("rdmsr", in("ecx") 0xC000_0080u32, out("eax") lo, out("edx") hi, options(nomem, nostack));
        assert_eq!((lo, hi), (0x11, 0x22), "umh selftest: rdmsr");
        // in/out of each width
        c.push_in(0xAABB_CCDD_EEFF_1122);
        let v: u8;
        asm!("in al, dx", out("al") v, in("dx") 0x3f8u16, options(nomem, nostack));
        assert_eq!(v, 0x22);
        asm!("out dx, ax", in("dx") 0x1234u16, in("ax") 0xBEEFu16, options(nomem, nostack));
        // lidt with SIB + disp8 addressing, invlpg with disp32, RIP-independent
        let tbl: [u8; 16] = [0xff, 0x0f, 1, 2, 3, 4, 5, 6, 7, 8, 0, 0, 0, 0, 0, 0];
        let base = tbl.as_ptr() as u64 - 0x10 - 8;
        asm!("lidt [{0} + {1}*2 + 0x10]", in(reg) base, in(reg) 4u64, options(nostack, readonly));
        asm!("invlpg [{0} + 0x12345]", in(reg) 0x7000_0000u64, options(nostack));
        // invpcid r12, [r13]
        let desc: [u64; 2] = [7, 0x8000];
        asm!("invpcid r12, [r13]", in("r12") 1u64, in("r13") desc.as_ptr(), options(nostack, readonly));
        // ltr from 16-bit register, mov ss from register with 66 prefix form, swapgs, xsetbv
        asm!("ltr {0:x}", in(reg) 0x28u16, options(nomem, nostack));
        asm!("swapgs", options(nomem, nostack));
        asm!("xsetbv", in("ecx") 0u32, in("eax") 7u32, in("edx") 0u32, options(nomem, nostack));
        asm!("mov dr7, {0}", in(reg) 0x400u64, options(nomem, nostack));
        asm!("invlpgb", in("rax") 0x1001u64, in("ecx") 3u32, in("edx") 0u32, options(nomem, nostack));
        asm!("tlbsync", options(nomem, nostack));
    }
    let log = c.take_log();
    let ops: Vec<Op> = log.iter().map(|t| t.op).collect();
    use Op::*;
    let want = vec![
        Cli, Sti, Hlt, MovToCr, MovFromCr, MovToCr, MovFromCr, MovToCr, Wrmsr, Rdmsr, In, Out, Lidt, Invlpg, Invpcid, Ltr,
        Swapgs, Xsetbv, MovToDr, Invlpgb, Tlbsync,
    ];
    assert_eq!(ops, want, "umh selftest: decoded operation sequence {:?}", log);
    assert_eq!((log[3].a, log[3].b), (3, 0x1234_5000));
    assert_eq!((log[5].a, log[5].b, log[5].c), (4, 0x77, 15));
    assert_eq!((log[6].a, log[6].b, log[6].c), (4, 0x77, 9));
    assert_eq!((log[7].a, log[7].b), (8, 5));
    assert_eq!((log[8].a, log[8].b), (0xC000_0080, 0x22_0000_0011));
    assert_eq!((log[10].a, log[10].b, log[10].c), (0x3f8, 0x22, 8));
    assert_eq!((log[11].a, log[11].b, log[11].c), (0x1234, 0xBEEF, 16));
    assert_eq!((log[12].b, log[12].c), (0x0fff, 0x0807_0605_0403_0201));
    assert_eq!(log[13].a, 0x7001_2345);
    assert_eq!((log[14].a, log[14].b, log[14].c), (1, 7, 0x8000));
    assert_eq!(log[15].a, 0x28);
    assert_eq!((log[17].a, log[17].b), (0, 7));
    assert_eq!((log[18].a, log[18].b), (7, 0x400));
    assert_eq!((log[19].a, log[19].b, log[19].c), (0x1001, 3, 0));
    assert!(!c.if_flag || log[1].op == Sti);
    // unexpected fault -> panic (and the process survives)
    let keep = vec![1u8, 2, 3];
    let r = crate::engine::outcome(|| unsafe { core::ptr::read_volatile(0x10 as *const u64) + keep[1] as u64 });
    match r {
        crate::engine::Outcome::Panic(m) => assert!(m.contains("UNEXPECTED-FAULT"), "umh selftest: {}", m),
        _ => panic!("umh selftest: reading address 0x10 did not fault"),
    }
    assert_eq!(keep, vec![1u8, 2, 3]);
    // nested: inner fault is caught by the inner guard only
    let r = crate::engine::outcome(|| {
        let inner = crate::engine::outcome(|| unsafe { core::ptr::read_volatile(0x18 as *const u64) });
        assert!(inner.is_panic());
        7u32
    });
    assert_eq!(r, crate::engine::Outcome::Ret(7));
    c.reset();
}
