//! Simulated physical memory (DESIGN 2.5): sparse frames backed by one memfd, a linear harness
//! view, the offset window of the OffsetPageTable backend and the software MMU of the recursive
//! backend. One instance per process (signal handlers and address-space reservations are global);
//! `reset()` returns it to the empty state between backend runs.

use crate::umh;
use std::collections::BTreeMap;

pub const SLOTS: usize = 2048;
pub const PAGE: u64 = 4096;
pub const ADDR_MASK: u64 = 0x000f_ffff_ffff_f000;

/// Offset window: 16 TiB at P4 slots 32..64.
pub const WINDOW_BASE: u64 = 32 << 39;
pub const WINDOW_SIZE: u64 = 16 << 40;

#[derive(Clone, Copy, Debug, PartialEq, Eq)]
pub enum Access {
    /// backend (a): frame_to_pointer(frame)
    Pointer(u64),
    /// backend (b): a frame inside the window that is not a current table was touched
    WindowFault { frame: u64, write: bool },
    /// backend (c): a recursive address was resolved by the MMU to this frame
    Mmu { vpage: u64, frame: u64, write: bool },
    /// backend (c): the walk for a recursive address hit a non-present entry
    MmuUnresolved { vaddr: u64 },
}

pub struct PhysMem {
    fd: i32,
    /// linear view of the memfd (SLOTS pages)
    view: u64,
    pub slots: BTreeMap<u64, usize>, // frame address -> slot
    next_slot: usize,
    /// window pages currently mapped (frame -> ()), backend (b)
    window_mapped: Vec<u64>,
    pub window_p0: u64,
    pub window_on: bool,
    /// soft MMU, backend (c)
    pub mmu_on: bool,
    pub rec_index: u16,
    tlb: Vec<u64>, // mapped virtual pages in the recursive region
    pub log: Vec<Access>,
    reserved_window: bool,
    reserved_rec: Option<u16>,
    /// frames that are current page tables (used to decide window protection and C09)
    pub tables: std::collections::BTreeSet<u64>,
    pub overflow: bool,
}

static mut MEM: Option<PhysMem> = None;

#[allow(static_mut_refs)]
pub fn mem() -> &'static mut PhysMem {
    unsafe {
        if (*core::ptr::addr_of!(MEM)).is_none() {
            *core::ptr::addr_of_mut!(MEM) = Some(PhysMem::create());
            umh::PF_HOOK = Some(pf_hook);
        }
        (*core::ptr::addr_of_mut!(MEM)).as_mut().unwrap()
    }
}

/// Deterministic non-zero junk: every word looks like a present entry pointing at a guard frame.
/// Most distinct pages of the recursive region the software MMU maps during one call.
pub const TLB_CAP: usize = 16384;
pub const GUARD_FRAME: u64 = 0x000d_ead0_0000_0000 & ADDR_MASK;
pub fn junk_word(frame: u64, i: usize) -> u64 {
    let h = (frame >> 12).wrapping_mul(0x9E37_79B9_7F4A_7C15).wrapping_add((i as u64).wrapping_mul(0x1234_5678_9ABC_DEF1));
    let h = h ^ (h >> 29);
    // a mix of shapes, all non-zero and all leading to the guard frame when followed:
    //   1/2 present "table" entries, 1/4 present entries with the huge-page bit, 1/4 non-present but non-zero
    // so that code which wrongly interprets a data frame or an un-zeroed frame as a table gets
    // different answers (Ok / huge / not mapped) on different slots instead of one lucky constant.
    let noise = (h & 0x60) | ((h >> 20) & 0x8000_0000_0000_0000);
    match h & 3 {
        0 | 1 => GUARD_FRAME | 0x3 | noise,
        2 => GUARD_FRAME | 0x83 | noise,
        _ => GUARD_FRAME | 0x2 | noise,
    }
}

unsafe fn mmap_fixed(addr: u64, len: u64, prot: i32, flags: i32, fd: i32, off: u64) -> bool {
    let p = libc::mmap(addr as *mut libc::c_void, len as usize, prot, flags | libc::MAP_FIXED, fd, off as i64);
    p != libc::MAP_FAILED
}

impl PhysMem {
    fn create() -> PhysMem {
        unsafe {
            let name = b"vharness-physmem\0";
            let fd = libc::memfd_create(name.as_ptr() as *const libc::c_char, 0);
            assert!(fd >= 0, "memfd_create failed");
            assert_eq!(libc::ftruncate(fd, (SLOTS as i64) * PAGE as i64), 0);
            let view = libc::mmap(
                core::ptr::null_mut(),
                SLOTS * PAGE as usize,
                libc::PROT_READ | libc::PROT_WRITE,
                libc::MAP_SHARED,
                fd,
                0,
            );
            assert!(view != libc::MAP_FAILED);
            PhysMem {
                fd,
                view: view as u64,
                slots: BTreeMap::new(),
                next_slot: 0,
                window_mapped: vec![],
                window_p0: 0,
                window_on: false,
                mmu_on: false,
                rec_index: 0,
                tlb: vec![],
                log: vec![],
                reserved_window: false,
                reserved_rec: None,
                tables: Default::default(),
                overflow: false,
            }
        }
    }

    /// Forget all frames and mappings.
    pub fn reset(&mut self) {
        self.flush_tlb();
        unsafe {
            for f in std::mem::take(&mut self.window_mapped) {
                let va = WINDOW_BASE + (f - self.window_p0);
                mmap_fixed(va, PAGE, libc::PROT_NONE, libc::MAP_PRIVATE | libc::MAP_ANONYMOUS | libc::MAP_NORESERVE, -1, 0);
            }
        }
        self.slots.clear();
        self.next_slot = 0;
        self.window_on = false;
        self.mmu_on = false;
        self.log.clear();
        self.tables.clear();
        self.overflow = false;
    }

    pub fn fd(&self) -> i32 {
        self.fd
    }

    pub fn slot_ptr(&self, slot: usize) -> *mut u64 {
        (self.view + slot as u64 * PAGE) as *mut u64
    }

    /// Pointer (in the linear view) to the 4 KiB of `frame`, materialising it with junk on first touch.
    pub fn frame_ptr(&mut self, frame: u64) -> *mut u64 {
        let frame = frame & ADDR_MASK;
        if let Some(s) = self.slots.get(&frame) {
            return self.slot_ptr(*s);
        }
        if self.next_slot >= SLOTS {
            self.overflow = true;
            return self.slot_ptr(SLOTS - 1);
        }
        let s = self.next_slot;
        self.next_slot += 1;
        self.slots.insert(frame, s);
        let p = self.slot_ptr(s);
        unsafe {
            for i in 0..512 {
                *p.add(i) = junk_word(frame, i);
            }
        }
        p
    }

    pub fn read(&mut self, frame: u64, i: usize) -> u64 {
        unsafe { core::ptr::read_volatile(self.frame_ptr(frame).add(i)) }
    }
    pub fn write(&mut self, frame: u64, i: usize, v: u64) {
        unsafe { core::ptr::write_volatile(self.frame_ptr(frame).add(i), v) }
    }
    pub fn snapshot(&mut self, frame: u64) -> [u64; 512] {
        let p = self.frame_ptr(frame);
        let mut out = [0u64; 512];
        unsafe {
            for i in 0..512 {
                out[i] = core::ptr::read_volatile(p.add(i));
            }
        }
        out
    }
    pub fn materialised(&self) -> Vec<u64> {
        self.slots.keys().copied().collect()
    }

    // ---- backend (b): offset window --------------------------------------------------------------

    pub fn window_enable(&mut self, p0: u64) {
        if !self.reserved_window {
            unsafe {
                assert!(
                    mmap_fixed(WINDOW_BASE, WINDOW_SIZE, libc::PROT_NONE, libc::MAP_PRIVATE | libc::MAP_ANONYMOUS | libc::MAP_NORESERVE, -1, 0),
                    "cannot reserve the offset window"
                );
            }
            self.reserved_window = true;
        }
        self.window_p0 = p0;
        self.window_on = true;
    }
    pub fn window_contains(&self, frame: u64) -> bool {
        frame >= self.window_p0 && frame - self.window_p0 < WINDOW_SIZE
    }
    /// Make `frame` accessible (read/write) through the window.
    pub fn window_map(&mut self, frame: u64) {
        if !self.window_on || !self.window_contains(frame) {
            return;
        }
        let _ = self.frame_ptr(frame);
        let slot = self.slots[&frame];
        let va = WINDOW_BASE + (frame - self.window_p0);
        unsafe {
            assert!(mmap_fixed(va, PAGE, libc::PROT_READ | libc::PROT_WRITE, libc::MAP_SHARED, self.fd, slot as u64 * PAGE), "harness: window_map({:#x}) failed, errno {}", frame, *libc::__errno_location());
        }
        if !self.window_mapped.contains(&frame) {
            self.window_mapped.push(frame);
        }
    }
    pub fn window_unmap(&mut self, frame: u64) {
        if let Some(i) = self.window_mapped.iter().position(|f| *f == frame) {
            self.window_mapped.swap_remove(i);
            let va = WINDOW_BASE + (frame - self.window_p0);
            unsafe {
                mmap_fixed(va, PAGE, libc::PROT_NONE, libc::MAP_PRIVATE | libc::MAP_ANONYMOUS | libc::MAP_NORESERVE, -1, 0);
            }
        }
    }

    // ---- backend (c): software MMU -------------------------------------------------------------------

    pub fn rec_region(&self) -> (u64, u64) {
        let base = (self.rec_index as u64) << 39;
        (base, base + (1 << 39))
    }
    pub fn mmu_enable(&mut self, rec_index: u16) {
        assert!(rec_index >= 1 && rec_index < 256 && !(32..64).contains(&rec_index));
        if self.reserved_rec != Some(rec_index) {
            unsafe {
                if let Some(old) = self.reserved_rec {
                    libc::munmap(((old as u64) << 39) as *mut libc::c_void, 1 << 39);
                }
                let p = libc::mmap(
                    ((rec_index as u64) << 39) as *mut libc::c_void,
                    1 << 39,
                    libc::PROT_NONE,
                    libc::MAP_PRIVATE | libc::MAP_ANONYMOUS | libc::MAP_NORESERVE | libc::MAP_FIXED_NOREPLACE,
                    -1,
                    0,
                );
                assert!(p as u64 == (rec_index as u64) << 39, "cannot reserve recursive region {}", rec_index);
            }
            self.reserved_rec = Some(rec_index);
        }
        self.rec_index = rec_index;
        self.mmu_on = true;
    }
    pub fn flush_tlb(&mut self) {
        unsafe {
            let tlb = std::mem::take(&mut self.tlb);
            if tlb.len() > 64 {
                // one mapping over the whole region: cannot fail for lack of VMAs (it only removes some)
                if let Some(r) = self.reserved_rec {
                    mmap_fixed((r as u64) << 39, 1 << 39, libc::PROT_NONE, libc::MAP_PRIVATE | libc::MAP_ANONYMOUS | libc::MAP_NORESERVE, -1, 0);
                }
            } else {
                for va in tlb {
                    mmap_fixed(va, PAGE, libc::PROT_NONE, libc::MAP_PRIVATE | libc::MAP_ANONYMOUS | libc::MAP_NORESERVE, -1, 0);
                }
            }
        }
    }

    /// Hardware-style 4-level walk of the simulated tables from the emulated CR3.
    /// Returns the physical address for `vaddr`, or None if a non-present entry is hit.
    pub fn hw_walk(&mut self, cr3: u64, vaddr: u64) -> Option<(u64, u8)> {
        let mut table = cr3 & ADDR_MASK;
        for level in (1..=4u8).rev() {
            let idx = ((vaddr >> (12 + 9 * (level as u64 - 1))) & 511) as usize;
            let e = self.read(table, idx);
            if e & 1 == 0 {
                return None;
            }
            if level == 3 && e & 0x80 != 0 {
                return Some(((e & 0x000f_ffff_c000_0000) | (vaddr & 0x3fff_ffff), 3));
            }
            if level == 2 && e & 0x80 != 0 {
                return Some(((e & 0x000f_ffff_ffe0_0000) | (vaddr & 0x1f_ffff), 2));
            }
            if level == 1 {
                return Some(((e & ADDR_MASK) | (vaddr & 0xfff), 1));
            }
            table = e & ADDR_MASK;
        }
        None
    }
}

/// Page-fault hook called from the signal handler (synchronous faults only).
unsafe fn pf_hook(addr: u64, write: bool, _rip: u64) -> bool {
    let m = match (*core::ptr::addr_of_mut!(MEM)).as_mut() {
        Some(m) => m,
        None => return false,
    };
    if m.window_on && addr >= WINDOW_BASE && addr - WINDOW_BASE < WINDOW_SIZE {
        let frame = (m.window_p0 + (addr - WINDOW_BASE)) & ADDR_MASK;
        m.log.push(Access::WindowFault { frame, write });
        // give the access a (junk) page so that the call can finish deterministically
        m.window_map(frame);
        return true;
    }
    if m.mmu_on {
        let (lo, hi) = m.rec_region();
        if addr >= lo && addr < hi {
            if m.tlb.len() >= TLB_CAP {
                // a call that touches this many distinct table pages is running wild (e.g. following
                // junk entries through poison pages): stop serving it; the call is abandoned and
                // reported as an unexpected fault instead of exhausting the process's mappings
                return false;
            }
            let cr3 = umh::cpu().cr[3];
            match m.hw_walk(cr3, addr) {
                Some((pa, _lvl)) => {
                    let frame = pa & ADDR_MASK;
                    let _ = m.frame_ptr(frame);
                    let slot = m.slots[&frame];
                    let vpage = addr & !0xfff;
                    if !mmap_fixed(vpage, PAGE, libc::PROT_READ | libc::PROT_WRITE, libc::MAP_SHARED, m.fd, slot as u64 * PAGE) {
                        return false;
                    }
                    m.tlb.push(vpage);
                    m.log.push(Access::Mmu { vpage, frame, write });
                    return true;
                }
                None => {
                    m.log.push(Access::MmuUnresolved { vaddr: addr });
                    // poison page so the call can finish
                    let vpage = addr & !0xfff;
                    let frame = GUARD_FRAME;
                    let _ = m.frame_ptr(frame);
                    let slot = m.slots[&frame];
                    if !mmap_fixed(vpage, PAGE, libc::PROT_READ | libc::PROT_WRITE, libc::MAP_SHARED, m.fd, slot as u64 * PAGE) {
                        return false;
                    }
                    m.tlb.push(vpage);
                    return true;
                }
            }
        }
    }
    false
}
