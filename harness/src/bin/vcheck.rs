//! vcheck <ID> [--tier quick|thorough] [--seed N] [--worker i] [--workers n] [--out report.json]
//!            [--replay file.json] [--only substring] [--regress-dir dir]
//! exit 0: held; 1: violation (VIOLATION line printed); 2: usage / infrastructure problem.

use serde_json::Value;
use vharness::engine::{install_quiet_panic_hook, Mode, Run, Tier};

fn main() {
    let args: Vec<String> = std::env::args().collect();
    if args.len() < 2 {
        eprintln!("usage: vcheck <ID> [--tier ..] [--seed ..] [--worker i --workers n] [--out f] [--replay f]");
        std::process::exit(2);
    }
    let id = args[1].clone();
    let mut tier = Tier::Quick;
    let mut seed = 0u64;
    let mut worker = 0u32;
    let mut workers = 1u32;
    let mut out: Option<String> = None;
    let mut replay: Option<String> = None;
    let mut only: Option<String> = None;
    let mut regress_dir: Option<String> = None;
    let mut i = 2;
    while i < args.len() {
        let v = args.get(i + 1).cloned().unwrap_or_default();
        match args[i].as_str() {
            "--tier" => tier = if v == "thorough" { Tier::Thorough } else { Tier::Quick },
            "--seed" => seed = v.parse().expect("seed"),
            "--worker" => worker = v.parse().expect("worker"),
            "--workers" => workers = v.parse().expect("workers"),
            "--out" => out = Some(v),
            "--replay" => replay = Some(v),
            "--only" => only = Some(v),
            "--regress-dir" => regress_dir = Some(v),
            x => {
                eprintln!("unknown argument {}", x);
                std::process::exit(2);
            }
        }
        i += 2;
    }
    install_quiet_panic_hook();
    let f = match vharness::props::lookup(&id) {
        Some(f) => f,
        None => {
            eprintln!("unknown property {}", id);
            std::process::exit(2);
        }
    };

    let load = |path: &str| -> Option<(String, Value, String)> {
        let text = std::fs::read_to_string(path).ok()?;
        let v: Value = serde_json::from_str(&text).ok()?;
        let sub = v.get("sub")?.as_str()?.to_string();
        let prof = v.get("profile").and_then(|p| p.as_str()).unwrap_or("").to_string();
        Some((sub, v.get("case")?.clone(), prof))
    };

    // --replay: strict re-execution of one saved case, bypassing proptest
    if let Some(path) = replay {
        let (sub, case, _) = match load(&path) {
            Some(x) => x,
            None => {
                eprintln!("cannot read replay file {}", path);
                std::process::exit(2);
            }
        };
        let mut run = Run::new(&id, tier, seed, 0, 1);
        run.mode = Mode::Replay { sub: sub.clone(), case };
        f(&mut run);
        if !run.replay_matched {
            eprintln!("replay: sub-check {} not found in property {} (profile {})", sub, id, run.profile);
            std::process::exit(2);
        }
        match run.replay_failed {
            Some(m) => {
                println!("VIOLATION property={} replay={}", id, path);
                println!("  sub={} profile={} message={}", sub, run.profile, m);
                std::process::exit(1);
            }
            None => {
                println!("replay {}: property held (sub={} profile={})", path, sub, run.profile);
                std::process::exit(0);
            }
        }
    }

    let mut run = Run::new(&id, tier, seed, worker, workers);
    run.only = only;
    let mut regress_violations = vec![];
    let mut regress_n = 0u64;
    // regression tier: committed minimal reproducers of fixed defects must pass (worker 0 only)
    if worker == 0 {
        if let Some(dir) = &regress_dir {
            let mut files: Vec<_> = std::fs::read_dir(dir)
                .map(|d| d.filter_map(|e| e.ok()).map(|e| e.path()).collect())
                .unwrap_or_default();
            files.sort();
            for p in files {
                let name = p.file_name().unwrap().to_string_lossy().to_string();
                if !name.starts_with(&format!("{}-", id)) || !name.ends_with(".json") {
                    continue;
                }
                let path = p.to_string_lossy().to_string();
                if let Some((sub, case, prof)) = load(&path) {
                    if !prof.is_empty() && prof != run.profile {
                        continue;
                    }
                    let mut r = Run::new(&id, tier, seed, 0, 1);
                    r.mode = Mode::Replay { sub: sub.clone(), case };
                    f(&mut r);
                    if !r.replay_matched {
                        continue;
                    }
                    regress_n += 1;
                    if let Some(m) = r.replay_failed {
                        println!("VIOLATION property={} replay={}", id, path);
                        println!("  (regression replay) sub={} profile={} message={}", sub, r.profile, m);
                        regress_violations.push(vharness::engine::Violation { sub, replay: path, message: m });
                    }
                }
            }
        }
    }
    f(&mut run);
    run.report.regress_replayed = regress_n;
    run.report.violations.extend(regress_violations);
    if let Some(o) = out {
        run.save_report(&o);
    }
    if run.report.violations.is_empty() {
        std::process::exit(0);
    } else {
        std::process::exit(1);
    }
}
