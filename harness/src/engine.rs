//! Engine: drives proptest from a binary with a fixed seed, collects evidence, shrinks failures into
//! replay files, replays them without proptest, and handles known findings.

use proptest::strategy::{Strategy, ValueTree};
use proptest::test_runner::{
    Config, RngAlgorithm, TestCaseError, TestError, TestRng, TestRunner,
};
use serde::de::DeserializeOwned;
use serde::{Deserialize, Serialize};
use serde_json::{json, Value};
use std::cell::{Cell, RefCell};
use std::collections::hash_map::DefaultHasher;
use std::collections::{BTreeMap, BTreeSet};
use std::fmt::Debug;
use std::hash::{Hash, Hasher};

#[derive(Clone, Copy, PartialEq, Eq, Debug)]
pub enum Tier {
    Quick,
    Thorough,
}

// ------------------------------------------------------------------------------------------------
// Panics as outcomes
// ------------------------------------------------------------------------------------------------

thread_local! {
    static LAST_PANIC: RefCell<String> = RefCell::new(String::new());
    static QUIET: Cell<bool> = Cell::new(true);
}

/// Install a panic hook that records the message instead of printing it.
pub fn install_quiet_panic_hook() {
    std::panic::set_hook(Box::new(|info| {
        let msg = if let Some(s) = info.payload().downcast_ref::<&str>() {
            s.to_string()
        } else if let Some(s) = info.payload().downcast_ref::<String>() {
            s.clone()
        } else {
            "<non-string panic>".to_string()
        };
        let loc = info
            .location()
            .map(|l| format!(" @{}:{}", l.file(), l.line()))
            .unwrap_or_default();
        LAST_PANIC.with(|p| *p.borrow_mut() = format!("{}{}", msg, loc));
        if !QUIET.with(|q| q.get()) {
            eprintln!("panic: {}{}", msg, loc);
        }
    }));
}

#[derive(Debug, Clone, PartialEq, Eq)]
pub enum Outcome<T> {
    Ret(T),
    Panic(String),
}

impl<T> Outcome<T> {
    pub fn is_panic(&self) -> bool {
        matches!(self, Outcome::Panic(_))
    }
    pub fn ret(self) -> Option<T> {
        match self {
            Outcome::Ret(t) => Some(t),
            Outcome::Panic(_) => None,
        }
    }
    pub fn as_ret(&self) -> Option<&T> {
        match self {
            Outcome::Ret(t) => Some(t),
            Outcome::Panic(_) => None,
        }
    }
}

/// Run `f`, turning a panic — or an unexpected hardware fault (see umh::guarded) — into a value.
pub fn outcome<T>(f: impl FnOnce() -> T) -> Outcome<T> {
    match crate::umh::guarded(f) {
        Ok(v) => Outcome::Ret(v),
        Err(m) => Outcome::Panic(m),
    }
}

pub fn last_panic_message() -> String {
    LAST_PANIC.with(|p| p.borrow().clone())
}

// ------------------------------------------------------------------------------------------------
// Observations of one case
// ------------------------------------------------------------------------------------------------

#[derive(Default)]
pub struct Obs {
    pub labels: Vec<String>,
    pub nontrivial: Vec<u64>,
    pub excluded: Vec<String>,
    pub evals: u64,
    pub notes: Vec<String>,
}

pub fn hash_of<H: Hash>(h: &H) -> u64 {
    let mut s = DefaultHasher::new();
    h.hash(&mut s);
    s.finish()
}

impl Obs {
    pub fn label(&mut self, s: impl Into<String>) {
        self.labels.push(s.into());
    }
    /// Mark the case (or one element of it) as non-trivial; `key` decides distinctness.
    pub fn nontrivial<H: Hash>(&mut self, key: &H) {
        self.nontrivial.push(hash_of(key));
    }
    pub fn exclude(&mut self, sig: &str) {
        self.excluded.push(sig.to_string());
    }
    /// Count additional elementary evaluations made by this case (default: 1 per case).
    pub fn add_evals(&mut self, n: u64) {
        self.evals += n;
    }
}

pub type CaseResult = Result<(), String>;

#[macro_export]
macro_rules! ensure {
    ($cond:expr, $($arg:tt)*) => {
        if !($cond) {
            return Err(format!($($arg)*));
        }
    };
}

#[macro_export]
macro_rules! ensure_eq {
    ($a:expr, $b:expr, $($arg:tt)*) => {{
        let (a, b) = (&$a, &$b);
        if a != b {
            return Err(format!("{}: left={:x?} right={:x?}", format!($($arg)*), a, b));
        }
    }};
}

// ------------------------------------------------------------------------------------------------
// Reports
// ------------------------------------------------------------------------------------------------

#[derive(Serialize, Deserialize, Default, Debug)]
pub struct SubReport {
    pub rule: String,
    pub cases: u64,
    pub evaluations: u64,
    pub nontrivial_cases: u64,
    pub labels: BTreeMap<String, u64>,
    pub excluded: BTreeMap<String, u64>,
    pub samples: Vec<Value>,
    pub exhaustive: bool,
    #[serde(skip)]
    pub hashes: BTreeSet<u64>,
    pub distinct_nontrivial: u64,
}

#[derive(Serialize, Deserialize, Debug, Clone)]
pub struct Violation {
    pub sub: String,
    pub replay: String,
    pub message: String,
}

#[derive(Serialize, Deserialize, Default, Debug)]
pub struct Report {
    pub property: String,
    pub tier: String,
    pub profile: String,
    pub seed: u64,
    pub worker: u32,
    pub workers: u32,
    pub subs: BTreeMap<String, SubReport>,
    pub violations: Vec<Violation>,
    pub known_findings: Vec<String>,
    pub regress_replayed: u64,
    pub assumptions: Vec<String>,
    pub notes: Vec<String>,
}

pub enum Mode {
    Normal,
    /// Replay exactly one serialised case of one sub-check, bypassing proptest.
    Replay { sub: String, case: Value },
}

pub struct Run {
    pub property: String,
    pub tier: Tier,
    pub seed: u64,
    pub worker: u32,
    pub workers: u32,
    pub profile: String,
    pub mode: Mode,
    pub report: Report,
    pub replay_dir: String,
    pub known: crate::known::Known,
    /// only run sub-checks whose name contains this
    pub only: Option<String>,
    /// set by replay: did the replayed case fail?
    pub replay_failed: Option<String>,
    pub replay_matched: bool,
    /// multiplies every case count (VERIF_SCALE, testing convenience)
    pub scale: f64,
}

fn splitmix(x: &mut u64) -> u64 {
    *x = x.wrapping_add(0x9E37_79B9_7F4A_7C15);
    let mut z = *x;
    z = (z ^ (z >> 30)).wrapping_mul(0xBF58_476D_1CE4_E5B9);
    z = (z ^ (z >> 27)).wrapping_mul(0x94D0_49BB_1331_11EB);
    z ^ (z >> 31)
}

const MAX_SAMPLES: usize = 4;

impl Run {
    pub fn new(property: &str, tier: Tier, seed: u64, worker: u32, workers: u32) -> Run {
        let profile = std::env::var("VERIF_PROFILE").unwrap_or_else(|_| if cfg!(debug_assertions) { "chk" } else { "rel" }.to_string());
        let mut report = Report::default();
        report.property = property.to_string();
        report.tier = match tier {
            Tier::Quick => "quick",
            Tier::Thorough => "thorough",
        }
        .to_string();
        report.profile = profile.clone();
        report.seed = seed;
        report.worker = worker;
        report.workers = workers;
        Run {
            property: property.to_string(),
            tier,
            seed,
            worker,
            workers,
            profile,
            mode: Mode::Normal,
            report,
            replay_dir: "/verif/replays/new".to_string(),
            known: crate::known::Known::load(),
            only: None,
            replay_failed: None,
            replay_matched: false,
            scale: std::env::var("VERIF_SCALE")
                .ok()
                .and_then(|s| s.parse().ok())
                .unwrap_or(1.0),
        }
    }

    pub fn is_chk(&self) -> bool {
        self.profile == "chk"
    }

    /// Number of cases this worker should run for a sub-check with the given per-tier totals.
    pub fn cases(&self, quick: u64, thorough: u64) -> u32 {
        let total = match self.tier {
            Tier::Quick => quick,
            Tier::Thorough => thorough,
        } as f64
            * self.scale;
        let per = (total / self.workers as f64).ceil();
        per.max(1.0) as u32
    }

    pub fn assume(&mut self, s: &str) {
        if !self.report.assumptions.iter().any(|a| a == s) {
            self.report.assumptions.push(s.to_string());
        }
    }

    fn rng_for(&self, sub: &str) -> TestRng {
        let mut x = self
            .seed
            .wrapping_mul(0x1000_0000_01B3)
            .wrapping_add(self.worker as u64)
            ^ hash_of(&(sub, &self.property, &self.profile));
        let mut bytes = [0u8; 32];
        for c in bytes.chunks_mut(8) {
            c.copy_from_slice(&splitmix(&mut x).to_le_bytes());
        }
        TestRng::from_seed(RngAlgorithm::ChaCha, &bytes)
    }

    fn wants(&self, name: &str) -> bool {
        match &self.only {
            Some(o) => name.contains(o.as_str()),
            None => true,
        }
    }

    fn record(sr: &mut SubReport, obs: Obs, case_json: impl FnOnce() -> Value) {
        sr.cases += 1;
        sr.evaluations += obs.evals.max(1);
        for l in obs.labels {
            *sr.labels.entry(l).or_insert(0) += 1;
        }
        for e in obs.excluded {
            *sr.excluded.entry(e).or_insert(0) += 1;
        }
        if !obs.nontrivial.is_empty() {
            sr.nontrivial_cases += 1;
            let mut newh = false;
            for h in obs.nontrivial {
                newh |= sr.hashes.insert(h);
            }
            if newh && sr.samples.len() < MAX_SAMPLES {
                let mut v = case_json();
                if !obs.notes.is_empty() {
                    v = json!({"case": v, "observed": obs.notes});
                }
                sr.samples.push(v);
            }
        }
    }

    fn write_replay(&self, sub: &str, case: &Value, message: &str) -> String {
        let _ = std::fs::create_dir_all(&self.replay_dir);
        let body = json!({
            "property": self.property,
            "sub": sub,
            "profile": self.profile,
            "seed": self.seed,
            "message": message,
            "case": case,
        });
        let text = serde_json::to_string_pretty(&body).unwrap();
        let h = hash_of(&text);
        let path = format!(
            "{}/{}-{}-{}-{:08x}.json",
            self.replay_dir,
            self.property,
            sub,
            self.profile,
            h as u32
        );
        std::fs::write(&path, text).expect("write replay");
        path
    }

    fn violation(&mut self, sub: &str, case: &Value, message: &str) {
        let path = self.write_replay(sub, case, message);
        println!("VIOLATION property={} replay={}", self.property, path);
        println!("  sub={} profile={} message={}", sub, self.profile, message);
        self.report.violations.push(Violation {
            sub: sub.to_string(),
            replay: path,
            message: message.to_string(),
        });
    }

    /// Evaluate `f` on a case, turning harness panics into failures.
    fn eval<C>(f: &impl Fn(&C, &mut Obs) -> CaseResult, case: &C) -> (CaseResult, Obs) {
        let mut obs = Obs::default();
        let r = match outcome(|| f(case, &mut obs)) {
            Outcome::Ret(r) => r,
            Outcome::Panic(m) => Err(format!("unexpected panic outside an oracle-guarded call: {}", m)),
        };
        (r, obs)
    }

    /// A generated sub-check: `cases` cases from `strategy`, each judged by `f`.
    pub fn sub<C, S>(
        &mut self,
        name: &str,
        rule: &str,
        cases: u32,
        strategy: S,
        f: impl Fn(&C, &mut Obs) -> CaseResult,
    ) where
        C: Debug + Clone + Serialize + DeserializeOwned,
        S: Strategy<Value = C>,
    {
        if !self.wants(name) {
            return;
        }
        if let Mode::Replay { sub, case } = &self.mode {
            if sub != name {
                return;
            }
            self.replay_matched = true;
            let c: C = match serde_json::from_value(case.clone()) {
                Ok(c) => c,
                Err(e) => {
                    self.replay_failed = Some(format!("replay case does not deserialise: {}", e));
                    return;
                }
            };
            let (r, _obs) = Self::eval(&f, &c);
            if let Err(m) = r {
                self.replay_failed = Some(m);
            }
            return;
        }

        let config = Config {
            cases,
            failure_persistence: None,
            max_shrink_iters: 4096,
            // shrinking only minimises the reproducer; cap it so that failing cases that are slow to run
            // (e.g. calls abandoned at the trap budget) cannot hold a worker until the watchdog
            max_shrink_time: 90_000,
            max_global_rejects: 65536,
            ..Config::default()
        };
        let mut runner = TestRunner::new_with_rng(config, self.rng_for(name));
        let sr = RefCell::new(SubReport {
            rule: rule.to_string(),
            ..SubReport::default()
        });
        let failed = Cell::new(false);
        let result = runner.run(&strategy, |case: C| {
            let (r, obs) = Self::eval(&f, &case);
            match r {
                Ok(()) => {
                    if !failed.get() {
                        Self::record(&mut sr.borrow_mut(), obs, || {
                            serde_json::to_value(&case).unwrap_or(Value::Null)
                        });
                    }
                    Ok(())
                }
                Err(m) => {
                    failed.set(true);
                    Err(TestCaseError::fail(m))
                }
            }
        });
        let mut sr = sr.into_inner();
        sr.distinct_nontrivial = sr.hashes.len() as u64;
        match result {
            Ok(()) => {}
            Err(TestError::Fail(reason, value)) => {
                let v = serde_json::to_value(&value).unwrap_or(Value::Null);
                // re-evaluate the shrunk case to get its own message
                let (r, _) = Self::eval(&f, &value);
                let msg = r.err().unwrap_or_else(|| reason.message().to_string());
                self.violation(name, &v, &msg);
            }
            Err(TestError::Abort(reason)) => {
                self.report
                    .notes
                    .push(format!("sub {} aborted: {}", name, reason.message()));
                eprintln!("INCONCLUSIVE sub={} aborted: {}", name, reason.message());
            }
        }
        self.merge_sub(name, sr);
    }

    /// An enumerated sub-check: every item of `items` is judged by `f`; complete on every run.
    /// Runs on worker 0 only (other workers would repeat the same finite space).
    pub fn exhaustive<C, I>(
        &mut self,
        name: &str,
        rule: &str,
        items: I,
        f: impl Fn(&C, &mut Obs) -> CaseResult,
    ) where
        C: Debug + Clone + Serialize + DeserializeOwned,
        I: IntoIterator<Item = C>,
    {
        if !self.wants(name) {
            return;
        }
        if let Mode::Replay { sub, case } = &self.mode {
            if sub != name {
                return;
            }
            self.replay_matched = true;
            match serde_json::from_value::<C>(case.clone()) {
                Ok(c) => {
                    if let (Err(m), _) = Self::eval(&f, &c) {
                        self.replay_failed = Some(m);
                    }
                }
                Err(e) => self.replay_failed = Some(format!("replay case does not deserialise: {}", e)),
            }
            return;
        }
        if self.worker != 0 {
            return;
        }
        let mut sr = SubReport {
            rule: rule.to_string(),
            exhaustive: true,
            ..SubReport::default()
        };
        for c in items {
            let (r, obs) = Self::eval(&f, &c);
            match r {
                Ok(()) => Self::record(&mut sr, obs, || serde_json::to_value(&c).unwrap_or(Value::Null)),
                Err(m) => {
                    let v = serde_json::to_value(&c).unwrap_or(Value::Null);
                    self.violation(name, &v, &m);
                    break;
                }
            }
        }
        sr.distinct_nontrivial = sr.hashes.len() as u64;
        self.merge_sub(name, sr);
    }

    fn merge_sub(&mut self, name: &str, sr: SubReport) {
        self.report.subs.insert(name.to_string(), sr);
    }

    /// Known-finding protocol (DESIGN 2.9). Returns true iff `sig` is listed as `open:` in
    /// KNOWN_FINDINGS.txt for this property **and** `reproducer` still reproduces it on the current
    /// tree; then a KNOWN-FINDING line is printed and the caller must exclude the triggering inputs
    /// by construction. In replay mode nothing is excluded (strict).
    pub fn open_finding(&mut self, sig: &str, reproducer: impl FnOnce() -> bool) -> bool {
        if matches!(self.mode, Mode::Replay { .. }) {
            return false;
        }
        let text = match self.known.open(&self.property, sig) {
            Some(t) => t,
            None => return false,
        };
        let reproduces = match outcome(reproducer) {
            Outcome::Ret(b) => b,
            Outcome::Panic(_) => false,
        };
        if reproduces {
            if self.worker == 0 {
                println!("KNOWN-FINDING: property={} sig={} {}", self.property, sig, text);
            }
            self.report
                .known_findings
                .push(format!("sig={} {}", sig, text));
            true
        } else {
            self.report.notes.push(format!(
                "open finding sig={} no longer reproduces; full domain explored",
                sig
            ));
            false
        }
    }

    pub fn save_report(&self, path: &str) {
        let text = serde_json::to_string(&self.report).unwrap();
        std::fs::write(path, text).expect("write report");
        // hashes (for cross-worker distinct counting) in a side file: sub name, count, u64 LE...
        let mut bin: Vec<u8> = Vec::new();
        for (name, sr) in &self.report.subs {
            let nb = name.as_bytes();
            bin.extend_from_slice(&(nb.len() as u32).to_le_bytes());
            bin.extend_from_slice(nb);
            bin.extend_from_slice(&(sr.hashes.len() as u64).to_le_bytes());
            for h in &sr.hashes {
                bin.extend_from_slice(&h.to_le_bytes());
            }
        }
        std::fs::write(format!("{}.hashes", path), bin).expect("write hashes");
    }
}

/// Generate one value from a strategy with a fixed rng (used by known-finding reproducers etc.).
pub fn sample_one<S: Strategy>(s: &S, seed: u64) -> S::Value {
    let mut x = seed;
    let mut bytes = [0u8; 32];
    for c in bytes.chunks_mut(8) {
        c.copy_from_slice(&splitmix(&mut x).to_le_bytes());
    }
    let mut runner = TestRunner::new_with_rng(
        Config::default(),
        TestRng::from_seed(RngAlgorithm::ChaCha, &bytes),
    );
    s.new_tree(&mut runner).unwrap().current()
}
