//! vharness — property-based testing / fuzzing harness for rust-osdev/x86_64 (see /verif/DESIGN.md).
#![feature(step_trait)]
#![feature(abi_x86_interrupt)]
#![allow(clippy::all)]

pub mod deliver;
pub mod engine;
#[cfg(feature = "fuzz")]
pub mod fuzzglue;
pub mod gen;
pub mod known;
pub mod model;
pub mod simmem;
pub mod props;
pub mod umh;
