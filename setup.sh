#!/bin/sh
# MANIFEST.setup_cmd: offline build of both harness profiles (chk: overflow/debug assertions on; rel: off)
set -e
cd "$(dirname "$0")/harness"
export CARGO_NET_OFFLINE=true
cargo +nightly build --offline --profile chk --bin vcheck
cargo +nightly build --offline --profile dbg --bin vcheck
cargo +nightly build --offline --profile rel --bin vcheck
